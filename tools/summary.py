#!/usr/bin/env python3
"""Prints one line per evidence file (tier, evaluations, distinct non-trivial, wall seconds, violations)."""
import glob, json
for f in sorted(glob.glob('/verif/evidence/*.json')):
    d = json.load(open(f))
    c = d['coverage']
    print(f"{d['property_id']} {d['tier']:8s} level={d['level']:17s} evaluations={c.get('evaluations'):>10} "
          f"distinct_nontrivial={c.get('distinct_nontrivial'):>9} wall_s={d['wall_s']:>7} violations={d.get('violations')}")
