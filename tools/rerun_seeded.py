#!/usr/bin/env python3
"""Re-validates the machinery against every stored seeded change (seeded/<name>/patch.diff).

For each: scratch copy of /repo (outside /repo and /verif), apply the patch, run the quick tier of the
check of the property it breaks with VERIF_REPO pointing at the copy, record CAUGHT / MISSED and the wall
time in seeded/RESULTS.md, optionally harvest one shrunk replay into replays/<id>/seeded_<name>.* as a
regression input for the unchanged tree (where it must pass), then remove the copy and its build output.

    tools/rerun_seeded.py [name-substring ...] [--harvest]
"""
import glob
import json
import os
import shutil
import subprocess
import sys
import time

VERIF = "/verif"
args = [a for a in sys.argv[1:] if not a.startswith("--")]
harvest = "--harvest" in sys.argv
rows = []
for d in sorted(glob.glob(os.path.join(VERIF, "seeded", "*"))):
    if not os.path.isdir(d):
        continue
    name = os.path.basename(d)
    if args and not any(a in name for a in args):
        continue
    meta = json.load(open(os.path.join(d, "meta.json")))
    pid = meta["breaks_property"]
    scratch = f"/tmp/seeded_{name}"
    shutil.rmtree(scratch, ignore_errors=True)
    subprocess.run(["rsync", "-a", "--exclude", "_build", "--exclude", ".git", "/repo/", scratch + "/"], check=True)
    p = subprocess.run(["patch", "-p1", "-s", "-d", scratch, "-i", os.path.join(d, "patch.diff")], capture_output=True, text=True)
    if p.returncode != 0:
        rows.append((name, pid, "PATCH DOES NOT APPLY (the tree changed under it)", 0))
        shutil.rmtree(scratch, ignore_errors=True)
        continue
    t0 = time.time()
    q = subprocess.run(["python3", os.path.join(VERIF, "check.py"), pid, "--tier", "quick"],
                       capture_output=True, text=True, env=dict(os.environ, VERIF_REPO=scratch))
    wall = time.time() - t0
    viol = [l for l in q.stdout.splitlines() if l.startswith("VIOLATION ")]
    verdict = f"CAUGHT ({len(viol)} workers / engines reported)" if q.returncode == 1 and viol else f"MISSED (exit {q.returncode})"
    rows.append((name, pid, verdict, wall))
    print(f"{name}: {verdict} in {wall:.0f}s", flush=True)
    if harvest and viol:
        rp = viol[0].split("replay=")[1].strip()
        if os.path.exists(rp):
            txt = open(rp).read()
            dst_dir = os.path.join(VERIF, "replays", pid)
            os.makedirs(dst_dir, exist_ok=True)
            if "program:" in txt and "schedule:" in txt:
                # scheduled case: keep program + bounded search (step numbers do not survive edits)
                body = txt[:txt.index("schedule:")] + "schedule:\n"
                hdr = f"# regression input harvested from the seeded change {name} (passes on the unchanged tree)\n# mode: search\n"
                open(os.path.join(dst_dir, f"seeded_{name}.search.txt"), "w").write(hdr + body)
            elif "regen " not in txt:
                hdr = f"# regression input harvested from the seeded change {name} (passes on the unchanged tree)\n"
                open(os.path.join(dst_dir, f"seeded_{name}.txt"), "w").write(hdr + txt)
    shutil.rmtree(scratch, ignore_errors=True)
    import hashlib
    shutil.rmtree("/tmp/verif-scratch-" + hashlib.sha256(os.path.realpath(scratch).encode()).hexdigest()[:10], ignore_errors=True)

with open(os.path.join(VERIF, "seeded", "RESULTS.md"), "w" if not args else "a") as f:
    if not args:
        f.write("# Seeded changes vs. the quick tier (tools/rerun_seeded.py)\n\n| seeded change | property | verdict | wall s |\n|---|---|---|---|\n")
    for name, pid, verdict, wall in rows:
        f.write(f"| {name} | {pid} | {verdict} | {wall:.0f} |\n")
print("done")
