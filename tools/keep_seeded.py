#!/usr/bin/env python3
"""keep_seeded.py <worktree> <name> <property> <caught_by> <needs> : stores a confirmed seeded change under
/verif/seeded/<name>/ (patch.diff, demonstration, NOTES.md, meta.json) and removes the scratch worktree."""
import json, os, shutil, subprocess, sys, glob
wt, name, prop, caught, needs = sys.argv[1:6]
dst = os.path.join('/verif/seeded', name)
os.makedirs(dst, exist_ok=True)
shutil.copy(os.path.join(wt, 'patch.diff'), dst)
for f in glob.glob(os.path.join(wt, 'demo_*.cpp')) + glob.glob(os.path.join(wt, 'NOTES.md')):
    shutil.copy(f, dst)
meta = {
    "breaks_property": prop,
    "needs_to_manifest": needs,
    "produced_by": "independent sub-agent given only the property record and a scratch worktree",
    "confirmed": "in the scratch worktree: ctest 10/10 pass with the change; demonstration fails with the change and passes without it",
    "checks_run": caught,
}
json.dump(meta, open(os.path.join(dst, 'meta.json'), 'w'), indent=1)
subprocess.run(['git', '-C', '/repo', 'worktree', 'remove', '--force', wt])
shutil.rmtree(wt, ignore_errors=True)
print('kept', dst)
