#!/bin/sh
# Creates a scratch git worktree of /repo under /tmp for a mutation sub-agent
# (outside /repo and /verif), with the vendored third-party sources copied in.
set -e
name="$1"
wt="/tmp/wt_$name"
git -C /repo worktree remove --force "$wt" 2>/dev/null || true
rm -rf "$wt"
git -C /repo worktree add --detach "$wt" HEAD >/dev/null 2>&1
for d in googletest benchmark deepstate; do
  rmdir "$wt/3rd_party/$d" 2>/dev/null || true
  cp -r "/repo/3rd_party/$d" "$wt/3rd_party/$d"
done
echo "$wt"
