#!/usr/bin/env python3
"""Generates /verif/MANIFEST.json from the table below (kept in one place so
that the manifest is always valid and consistent with check.py)."""
import json
import os
import subprocess

VERIF = os.path.dirname(os.path.dirname(os.path.abspath(__file__)))

ALL = [f"C{i:02d}" for i in range(1, 18)]

# property -> (engine, level category, level text, level note, technique, design ref)
CLAIMED = {
    "C01": ("seq", "exploration",
            "Generated operation histories (structured key universes reaching every node class and every "
            "grow/shrink/collapse/prefix-split transition) on all six index/key configurations are interpreted "
            "against a std::map model with held-view re-reads under ASan+UBSan and the library's assertions; "
            "failures are shrunk by delta debugging to a replay file. Exploration is the right level: the "
            "property quantifies over unbounded histories and has an exact executable oracle.",
            "Trusted: the std::map model and the universe generators (prefix-free by construction); K1 "
            "(compressed path > 7 bytes) is excluded by a model predicate and counted.",
            "model-based property testing (generated histories vs map model, ddmin shrinking)", "5 C01"),
    "C02": ("seq", "exploration",
            "Scan queries with bounds from named classes (stored, neighbours, leave-the-tree probes at every "
            "depth, 0/max, equal, descending), both directions and early halting run on contents produced by "
            "generated histories; the delivered (key,value) sequence must equal the model interval; byte-string "
            "scan_range queries are issued with the caller buffers in both address orders.",
            "Trusted: map model interval computation; byte-string bounds are kept prefix-free w.r.t. stored keys "
            "(checked by the runner, skipped and counted otherwise).",
            "model-based property testing + metamorphic (buffer address swap)", "5 C02"),
    "C03": ("olc", "exploration",
            "Generated programs (initial trees around a focus node at every size-class boundary, with inner "
            "children and sibling branches; 2-3 threads of get/insert/remove) run on real QSBR threads under the "
            "deterministic scheduler; every schedule with <= 1 preemption and, up to a cap, <= 2 preemptions is "
            "executed, plus PCT and random walks; the stamped history must be per-key linearizable (Wing-Gong "
            "search with unique values), including a final read of every key.",
            "SC at hook granularity (memory-order-only defects invisible); 8-byte keys as uint64 or byte strings; exhaustive only to the "
            "stated preemption bound on the generated programs.",
            "schedule enumeration (bounded-preemption search, PCT, random walk) + per-key linearizability checker",
            "5 C03"),
    "C04": ("olc", "exploration",
            "The C03 executions extended with scans and explicit quiescent-state placement, built with ASan; "
            "readers keep every value view they were given and re-read it before their next quiescent state; "
            "allocate/free notifications decide exactly-once reclamation (ASan traps a double free; destruction "
            "after the drain must empty the set of live tree blocks); a single-threaded sweep touches every node afterwards.",
            "ASan detects accesses to freed blocks only while they sit in its quarantine (default 256 MB: far "
            "more than one execution frees); same scheduler assumptions as C03.",
            "schedule enumeration + sanitizer + held-view re-reads + allocator accounting", "5 C04"),
    "C09": ("olc", "exploration",
            "Programs with one or two scanner threads (all scan kinds, both directions, early halt) and writers that "
            "restructure the scanned neighbourhood; the visitor callback is a scheduling point; per scan the "
            "order / bounds / value-validity / exactly-once-for-stable-keys oracle is evaluated against the "
            "stamped writer history.",
            "Completeness is demanded only for keys with no writer overlapping the scan (weakest reading); value "
            "validity uses a sound, incomplete criterion (a value is rejected only if its key definitely did not "
            "hold it during the scan).",
            "schedule enumeration + history-based scan oracle", "5 C09"),
    "C14": ("olc", "exploration",
            "Every execution of the OLC programs (point operations and scans) ends either normally or with a "
            "scheduler verdict: deadlock = all unfinished threads spin without any store/CAS progress; after each "
            "execution a single-threaded sweep (gets, full scans, insert+remove probes next to every key) must "
            "never reach a spin-wait (a lock left behind); exceeding the step bound is reported as inconclusive.",
            "Liveness is decided as bounded progress under the deterministic scheduler's fair default "
            "continuation; unbounded starvation is out of reach of finite programs. A quarter of the workers use "
            "an NDEBUG harness build (assertion-enabled builds can turn a would-be hang into an abort). The "
            "allocation-failure part runs the sequential harness's fault loops (every k-th allocation of every "
            "insert / remove) on the two olc_db configurations; there any spin-wait reached single-threaded is a "
            "lock left held.",
            "schedule enumeration with deadlock / lock-left-behind / bounded-progress verdicts", "5 C14"),
    "C05": ("qsbr", "exploration",
            "Programs of 2-4 real QSBR threads over abstract objects (catalogue of epoch-change races scripted with "
            "harness-level await constraints + generated programs) run under the deterministic scheduler with "
            "every QSBR state-word and orphan-list access a scheduling point; all schedules with <= 2 preemptions "
            "(3 on a subset in the thorough tier) plus PCT and random walks; the reference oracle and the literal "
            "grace-period oracle are evaluated at every free notification.",
            "SC at hook granularity; thread start/exit exercised as resume/pause; weakest reading of 'passed "
            "through a quiescent state' (a call in progress counts).",
            "schedule enumeration (bounded-preemption DFS, PCT, random walk) over generated QSBR programs with "
            "reference + grace-period oracle at each free", "5 C05"),
    "C06": ("qsbr", "exploration",
            "The C05 executions, each followed by a deterministic drain; free notifications are counted per retired "
            "block (exactly once, never lost after three undisturbed rounds), the registered-thread count getter "
            "is compared with the harness count at every operation boundary with no pause/resume in flight, and "
            "all emptiness getters are checked after the final two quiescent states.",
            "Same scheduler assumptions as C05; the three-round bound is asserted only in the undisturbed drain "
            "(what the statement promises).",
            "schedule enumeration over generated QSBR programs + drain with exactly-once / thread-count / "
            "emptiness oracles", "5 C06"),
    "C07": ("lock", "exploration",
            "Generated scripts of 2-3 threads on one optimistic_lock with three protected words run on real threads "
            "under a deterministic cooperative scheduler whose scheduling points are the hooks before every atomic "
            "access; every schedule with at most 2 preemptions (3 in the thorough tier) is enumerated per program, "
            "plus PCT and random schedules; invariants over the stamped history decide exclusivity, snapshot "
            "reads, upgrade and obsolete semantics. Failures shrink to (program, schedule) replay files.",
            "Sequential consistency at hook granularity (reorderings allowed by the C++ memory model but not by SC "
            "are invisible); exhaustive only up to the stated preemption bound per generated program.",
            "schedule enumeration (bounded-preemption DFS, PCT, random walk) over generated lock scripts with "
            "history-invariant oracle", "5 C07"),
    "C08": ("seq + qsbr_fault", "fault_enumeration",
            "For every insert and remove of generated histories on all six index/key configurations the library's "
            "own allocation-failure injector fails the k-th allocation for k = 1.. until the operation completes "
            "(every allocation it makes is failed exactly once, no hard-coded counts); over-long values and keys "
            "are refused by std::length_error; QSBR resume, qsbr_thread start and deferred-deallocation requests "
            "get the same k-loop in a no-sanitizer build whose operator new is intercepted. Before/after snapshots "
            "(scan output with values, get of every key, statistics, memory use, the set of live blocks) must be "
            "identical; a spin-wait reached single-threaded means a lock was left held.",
            "The injector exists only in assertion-enabled builds (as in the repository); under ASan only "
            "allocate_aligned is intercepted (tree nodes and leaves), operator new only in the QSBR part. olc_db "
            "runs with a single registered thread as the property states.",
            "exhaustive fault-point enumeration over generated histories with snapshot-equality oracle", "5 C08"),
    "C10": ("seq", "exploration",
            "After every mutating operation of generated histories the reported node counts are compared with the "
            "canonical path-compressed radix tree of the model key set, the growing/shrinking/prefix-split "
            "counters with running sums of model-derived deltas, the reported memory use with the allocator "
            "notifications (hooks); sorted-reload metamorphic check for history independence; destruction must "
            "return every block.",
            "Trusted: canonical radix-tree model (src/common/model.hpp); allocation hooks report the requested "
            "sizes. The concurrent-phase part runs the scheduled olc_db harness (src/conc_olc, --prop C10) and "
            "checks shape and accounting once every thread has quiesced and the drain has completed.",
            "model-based property testing (canonical tree model, allocator accounting, metamorphic reload)",
            "5 C10"),
    "C11": ("enc", "exploration",
            "Order embedding decided exhaustively for every 8/16/32-bit integer type and for float (successor "
            "chains over all values: strict order along a total chain implies order embedding), exhaustively for "
            "all pairs of small texts, and by generated structured/random pairs of tuples for 64-bit integers, "
            "double, long texts and multi-component keys.",
            "Trusted: the oracle's restatement of the total orders (comparison operators, libm nextafter, "
            "std::string compare). 64-bit and double domains are sampled, not enumerated.",
            "exhaustive successor chains + property-based pair testing against the stated total order", "5 C11"),
    "C12": ("enc", "exploration",
            "Round trip and component size decided exhaustively for all 8/16/32-bit integers and all 2^32 float bit "
            "patterns; generated component sequences up to 200 components (crossing the 256-byte internal buffer "
            "several times) compare a fresh encoder with a reused, grown one and decode leading fixed-size "
            "components in order.",
            "Trusted: bit-pattern equality oracle; text components are not decodable by design and end the decoded "
            "prefix.", "exhaustive round trip + property-based sequence testing (fresh vs reused encoder)", "5 C12"),
    "C15": ("enc", "exploration",
            "Prefix freedom and equality-iff-normalised-equality decided exhaustively on all pairs of small texts and "
            "by generated tuples of equal schema (texts in any position, around and beyond maxlen); read bound by a "
            "guard page placed directly after maxlen bytes; size bound len+3 asserted on every text.",
            "Trusted: normalisation oracle (truncate to maxlen, strip trailing zeros, NaNs unified, -0 != +0).",
            "property-based pair testing with prefix/equality oracle + guard-page fault injection", "5 C15"),
    "C13": ("mx", "exploration",
            "Thousands of short runs of 2-8 free-running plain threads on one mutex_db (seeded operation mixes and "
            "perturbation plans); the stamped history must be per-key linearizable; every returned lock handle is "
            "inspected (hit <=> owns_lock()), held hits are re-read and must not change, no operation called after "
            "a hit returned may complete before it is released; a progress watchdog detects a leaked lock; ASan + "
            "UBSan (quick) and additionally a ThreadSanitizer build (thorough) turn unlocked accesses into reports.",
            "The harness does not own this schedule (std::mutex acquisition cannot be made a scheduling point "
            "without rewriting mutex_art.hpp): interleaving coverage is best effort and runs are not "
            "bit-reproducible (a replay re-runs the failing configuration up to 200 times); the oracle itself is "
            "timing independent.",
            "randomized concurrent stress with history oracles (linearizability, lock-handle and pinning "
            "invariants) + sanitizers", "5 C13"),
    "C16": ("cfgx", "exploration",
            "One seeded generator (independent of the build) produces histories of point operations and scans on all "
            "three index classes (uint64 keys, byte-string keys <= 8 bytes); 16 executor binaries - {AVX2,SSE4.1} x "
            "{stats on,off} x {assertions,NDEBUG} x {PAUSE,EMPTY} - replay them without any model; result-trace "
            "hashes must agree in all 16, statistics-counter hashes in the 8 stats builds, every executor must exit "
            "0 (assertion = SIGABRT, hang = CPU-time bound); disagreements are delta-debugged against the "
            "disagreeing pair.",
            "Reported memory use is compared only within the same SIMD level and assertion setting (node sizes "
            "depend on vector alignment and on debug-only lock fields - comparing it across those was a false alarm "
            "of the first version of this check). The spin-wait variants are compiled but a sequential history "
            "executes neither spin body; contention runs under the scheduler use PAUSE only.",
            "differential testing across a build-configuration matrix with delta-debugging", "5 C16"),
    "C17": ("qp", "exploration",
            "Stateful generated sequences over pools of qsbr_ptr and qsbr_ptr_span objects are compared step by step "
            "with a shadow model of raw pointers / spans; the liveness verdict is probed in forked children "
            "(quiescent state and pause+resume) after generated prefixes in an assertion-enabled build (must "
            "abort iff a non-null wrapper is alive) and in an NDEBUG+ASan+UBSan build (must never abort); all "
            "sequences up to length 4 over a reduced alphabet are enumerated.",
            "Self-assignment, arithmetic outside the buffer and on null are outside the statement / UB and are not "
            "generated; a rejected call is observed as SIGABRT of the forked child.",
            "stateful model-based testing against a raw-pointer shadow model + fork-probed liveness verdicts", "5 C17"),
}

PENDING_REASON = ("not claimed yet: the harness for this property is designed in DESIGN.md but not built at this "
                  "commit (work in progress, DESIGN.md section 11); property-based testing does apply")


def main():
    hooks_commits = []
    try:
        out = subprocess.run(["git", "-C", "/repo", "log", "--format=%H %s"], capture_output=True, text=True).stdout
        for line in out.splitlines():
            if "verification hooks" in line.lower():
                hooks_commits.append(line.split()[0])
    except Exception:
        pass
    checks = []
    for pid in ALL:
        if pid not in CLAIMED:
            continue
        eng, cat, text, note, tech, ref = CLAIMED[pid]
        checks.append({
            "property_id": pid,
            "quick_cmd": f"python3 check.py {pid} --tier quick",
            "thorough_cmd": f"python3 check.py {pid} --tier thorough",
            "evidence_file": f"/verif/evidence/{pid}.json",
            "replay_cmd_template": f"python3 check.py {pid} --replay {{path}}",
            "engine": eng,
            "level_claimed": {"category": cat, "text": text, "design_ref": f"DESIGN.md section {ref}"},
            "level_note": note,
            "technique": tech,
        })
    man = {
        "version": 1,
        "setup_cmd": "sh setup.sh",
        "hooks": {
            "guard": "UNODB_DETAIL_VERIF_HOOKS",
            "enable": "harnesses compile the library sources directly with -DUNODB_DETAIL_VERIF_HOOKS "
                      "(check.py target_spec); no CMake involved",
            "baseline_off_cmd": "sh /verif/baseline_off.sh",
            "source_commits": hooks_commits,
            "add_only": True,
        },
        "engines": [
            {"name": "seq", "path": "src/seq", "serves_properties": ["C01", "C02", "C08", "C10"],
             "kind_free_text": "in-house property-based tester: seeded structured generators of operation "
                               "histories, interpreter with map / canonical-radix-tree models, fork-isolated "
                               "delta-debugging shrinker, text replay files; built with ASan+UBSan+assertions"},
            {"name": "qsbr_fault", "path": "src/fault", "serves_properties": ["C08"],
             "kind_free_text": "generated QSBR scripts with the k-th-allocation fault loop around resume / thread "
                               "start / deallocation request; built without sanitizers, links test_heap.cpp"},
            {"name": "mx", "path": "src/mutex", "serves_properties": ["C13"],
             "kind_free_text": "seeded run-configuration generator over free-running std::threads; oracles over the "
                               "stamped history; ASan+UBSan build and TSan build"},
            {"name": "cfgx", "path": "src/cfgdiff", "serves_properties": ["C16"],
             "kind_free_text": "model-free executor compiled in 16 build configurations; check.py diffs result / "
                               "statistics hashes and delta-debugs disagreements"},
            {"name": "qp", "path": "src/qsbrptr", "serves_properties": ["C17"],
             "kind_free_text": "seeded stateful sequence generator + exhaustive short-sequence enumerator with "
                               "drop-one shrinking; two builds (assertions / NDEBUG+sanitizers); fork per liveness probe"},
            {"name": "enc", "path": "src/enc", "serves_properties": ["C11", "C12", "C15"],
             "kind_free_text": "exhaustive chain enumerator (optimised build) + seeded generator of component tuples "
                               "with value shrinking (ASan+UBSan build); oracle restates the documented total order"},
            {"name": "olc", "path": "src/conc_olc (scheduler: src/sched)",
             "serves_properties": ["C03", "C04", "C09", "C14"],
             "kind_free_text": "same scheduler engine over olc_db with linearizability, scan, reclamation and "
                               "deadlock oracles; ASan+UBSan+assertions+stats build"},
            {"name": "qsbr", "path": "src/conc_qsbr (scheduler: src/sched)", "serves_properties": ["C05", "C06"],
             "kind_free_text": "same scheduler engine; programs over abstract objects with free-notification oracles"},
            {"name": "lock", "path": "src/conc_lock (scheduler: src/sched)", "serves_properties": ["C07"],
             "kind_free_text": "deterministic cooperative scheduler over real threads (baton passing at the "
                               "verification hooks), stateless DFS to a preemption bound + PCT + random walk, "
                               "crash-safe worker processes, schedule/program shrinking, text replay files"},
        ],
        "checks": checks,
        "notes": "All checks: python3 check.py <id> --tier quick|thorough; VERIF_SEED is honoured (every run is a "
                 "pure function of the /repo tree, the seed and the tier). known_findings.json lists recorded and "
                 "repaired defects.",
        "not_applicable": [{"property_id": p, "reason": PENDING_REASON} for p in ALL if p not in CLAIMED],
    }
    with open(os.path.join(VERIF, "MANIFEST.json"), "w") as f:
        json.dump(man, f, indent=1)
        f.write("\n")


if __name__ == "__main__":
    main()
