#!/usr/bin/env python3
"""Single entry point of the /verif machinery.

    check.py <Cxx> [--tier quick|thorough] [--seed N]
    check.py <Cxx> --replay FILE
    check.py --build-all            (setup_cmd: warm the build cache)

Exit 0: the property held on everything explored.
Exit 1: a line `VIOLATION property=<id> replay=<path>` was printed.
Exit 2: the machinery itself failed (build error, harness error).

Every run rebuilds what it needs from /repo's current working tree (the build
cache key is a hash of all repo sources, the harness sources and the flags,
so a cache hit only happens for byte-identical inputs) and rewrites
/verif/evidence/<id>.json.
"""
import argparse
import concurrent.futures as cf
import fcntl
import glob
import hashlib
import json
import os
import shutil
import subprocess
import sys
import time

VERIF = os.path.dirname(os.path.abspath(__file__))
REPO = os.environ.get("VERIF_REPO", "/repo")
WORK = os.path.join(VERIF, ".work")
EVID = os.path.join(VERIF, "evidence")
FOUND = os.path.join(VERIF, "replays")   # <FOUND>/<id>/found/ receives shrunk failures
if os.path.realpath(REPO) != "/repo":
    # sensitivity runs against a scratch copy of the repository: keep their
    # build output, evidence and findings away from the real ones
    _tag = hashlib.sha256(os.path.realpath(REPO).encode()).hexdigest()[:10]
    WORK = os.path.join(os.environ.get("VERIF_SCRATCH_ROOT", "/tmp"), "verif-scratch-" + _tag)
    EVID = os.path.join(WORK, "evidence")
    FOUND = os.path.join(WORK, "found")
NCPU = min(os.cpu_count() or 4, 16)

sys.path.insert(0, os.path.join(VERIF, "lib"))


def log(*a):
    print(*a, file=sys.stderr, flush=True)


# ---------------------------------------------------------------------------
# Build

HOOKS = ["-DUNODB_DETAIL_VERIF_HOOKS"]
BASE = ["-std=c++20", f"-I{REPO}", f"-I{VERIF}/src", "-DUNODB_SPINLOCK_LOOP_VALUE=1", "-mavx2", "-g"]
SAN = ["-fsanitize=address,undefined", "-fno-sanitize-recover=undefined"]
STATS = ["-DUNODB_DETAIL_WITH_STATS"]
REPO_LIB = ["art_internal.cpp", "qsbr.cpp", "qsbr_ptr.cpp"]


def repo_sources():
    files = sorted(glob.glob(os.path.join(REPO, "*.hpp")) + glob.glob(os.path.join(REPO, "*.cpp")))
    return files


def tree_hash(extra_files, flags):
    h = hashlib.sha256()
    for f in repo_sources() + sorted(extra_files):
        h.update(f.encode())
        with open(f, "rb") as fh:
            h.update(fh.read())
    h.update(json.dumps(flags, sort_keys=True).encode())
    return h.hexdigest()[:20]


def harness_files(subdirs):
    out = []
    for d in ["common"] + list(subdirs):
        out += glob.glob(os.path.join(VERIF, "src", d, "*"))
    return [f for f in out if os.path.isfile(f)]


def target_spec(name):
    """Returns (compiler, units, link_flags, source dirs). A unit is
    (source path, object name, flags)."""
    S = os.path.join(VERIF, "src")
    if name == "seq":
        fl = BASE + HOOKS + STATS + SAN + ["-O1"]
        units = [(f"{S}/seq/seq_cfg.cpp", f"cfg{i}.o", fl + [f"-DSEQ_CFG={i}"]) for i in range(6)]
        units.append((f"{S}/seq/seq_main.cpp", "main.o", fl))
        units += [(f"{REPO}/{f}", f.replace(".cpp", ".o"), fl) for f in REPO_LIB]
        return "g++", units, SAN + ["-pthread"], ["seq"]
    if name == "fuzz_seq":
        fl = BASE + HOOKS + STATS + ["-O1", "-fsanitize=fuzzer-no-link,address,undefined", "-fno-sanitize-recover=undefined"]
        units = [(f"{S}/seq/seq_cfg.cpp", f"cfg{i}.o", fl + [f"-DSEQ_CFG={i}"]) for i in range(6)]
        units.append((f"{S}/seq/seq_fuzz.cpp", "fuzz.o", fl))
        units += [(f"{REPO}/{f}", f.replace(".cpp", ".o"), fl) for f in REPO_LIB]
        return "clang++", units, ["-fsanitize=fuzzer,address,undefined", "-pthread"], ["seq"]
    if name == "fuzz_enc":
        fl = BASE + HOOKS + ["-O1", "-DVERIF_FUZZ", "-fsanitize=fuzzer,address,undefined", "-fno-sanitize-recover=undefined"]
        units = [(f"{S}/enc/enc_main.cpp", "enc_main.o", fl), (f"{REPO}/art_internal.cpp", "art_internal.o", fl)]
        return "clang++", units, ["-fsanitize=fuzzer,address,undefined"], ["enc"]
    if name in ("enc_fast", "enc_san"):
        fl = BASE + HOOKS + (["-O2"] if name == "enc_fast" else SAN + ["-O1"])
        units = [(f"{S}/enc/enc_main.cpp", "enc_main.o", fl), (f"{REPO}/art_internal.cpp", "art_internal.o", fl)]
        return "g++", units, ([] if name == "enc_fast" else SAN), ["enc"]
    if name.startswith("cfgx_"):
        i = int(name[5:])
        fl = ["-std=c++20", f"-I{REPO}", f"-I{VERIF}/src", "-g", "-O1"]
        fl += ["-mavx2"] if i & 1 else ["-msse4.1"]
        fl += STATS if i & 2 else []
        fl += [] if i & 4 else ["-DNDEBUG"]
        fl += ["-DUNODB_SPINLOCK_LOOP_VALUE=1"] if i & 8 else ["-DUNODB_SPINLOCK_LOOP_VALUE=2"]
        units = [(f"{S}/cfgdiff/cfg_exec.cpp", "cfg_exec.o", fl)]
        units += [(f"{REPO}/{f}", f.replace(".cpp", ".o"), fl) for f in REPO_LIB]
        return "g++", units, ["-pthread"], ["cfgdiff", "seq"]
    if name in ("qp_dbg", "qp_ndbg"):
        fl = BASE + HOOKS + (["-O1"] if name == "qp_dbg" else ["-O1", "-DNDEBUG"] + SAN)
        units = [(f"{S}/qsbrptr/qp_main.cpp", "qp_main.o", fl)]
        units += [(f"{REPO}/{f}", f.replace(".cpp", ".o"), fl) for f in ["qsbr.cpp", "qsbr_ptr.cpp"]]
        return "g++", units, (SAN if name == "qp_ndbg" else []) + ["-pthread"], ["qsbrptr"]
    if name == "qsbr_fault":
        fl = BASE + HOOKS + ["-O1"]   # no sanitizer: test_heap.cpp replaces operator new only then
        units = [(f"{S}/fault/qsbr_fault.cpp", "qsbr_fault.o", fl)]
        units += [(f"{REPO}/{f}", f.replace(".cpp", ".o"), fl) for f in ["qsbr.cpp", "qsbr_ptr.cpp", "test_heap.cpp"]]
        return "g++", units, ["-pthread"], ["fault"]
    if name in ("mx", "mx_tsan"):
        san = SAN if name == "mx" else ["-fsanitize=thread"]
        fl = BASE + HOOKS + STATS + san + ["-O1"]
        units = [(f"{S}/mutex/mx_main.cpp", "mx_main.o", fl)]
        units += [(f"{REPO}/{f}", f.replace(".cpp", ".o"), fl) for f in REPO_LIB]
        return "g++", units, san + ["-pthread"], ["mutex"]
    if name in ("olc", "olc_nd"):
        fl = BASE + HOOKS + STATS + SAN + ["-O1"] + (["-DNDEBUG"] if name == "olc_nd" else [])
        units = [(f"{S}/conc_olc/olc_main.cpp", "olc_main.o", fl)]
        units += [(f"{REPO}/{f}", f.replace(".cpp", ".o"), fl) for f in REPO_LIB]
        return "g++", units, SAN + ["-pthread"], ["sched", "conc_olc"]
    if name in ("qsbr", "qsbr_stats"):
        fl = BASE + HOOKS + SAN + ["-O1"] + (STATS if name == "qsbr_stats" else [])
        units = [(f"{S}/conc_qsbr/qsbr_main.cpp", "qsbr_main.o", fl)]
        units += [(f"{REPO}/{f}", f.replace(".cpp", ".o"), fl) for f in ["qsbr.cpp", "qsbr_ptr.cpp"]]
        return "g++", units, SAN + ["-pthread"], ["sched", "conc_qsbr"]
    if name == "lock":
        fl = BASE + HOOKS + SAN + ["-O1"]
        units = [(f"{S}/conc_lock/lock_main.cpp", "lock_main.o", fl)]
        return "g++", units, SAN + ["-pthread"], ["sched", "conc_lock"]
    raise KeyError(name)


def build(name):
    comp, units, link, dirs = target_spec(name)
    flags = [comp, [(os.path.basename(u[0]), u[1], u[2]) for u in units], link]
    h = tree_hash(harness_files(dirs), flags)
    bdir = os.path.join(WORK, "build", f"{name}-{h}")
    exe = os.path.join(bdir, name)
    os.makedirs(os.path.join(WORK, "build"), exist_ok=True)
    lock = open(os.path.join(WORK, "build", f"{name}.lock"), "w")
    fcntl.flock(lock, fcntl.LOCK_EX)
    try:
        if os.path.exists(exe):
            return exe
        # drop stale builds of this target (disk space)
        for old in glob.glob(os.path.join(WORK, "build", f"{name}-*")):
            shutil.rmtree(old, ignore_errors=True)
        os.makedirs(bdir)
        t0 = time.time()

        def cc(u):
            src, obj, fl = u
            cmd = [comp] + fl + ["-c", src, "-o", os.path.join(bdir, obj)]
            p = subprocess.run(cmd, capture_output=True, text=True)
            return (src, p.returncode, p.stderr)

        with cf.ThreadPoolExecutor(max_workers=NCPU) as ex:
            results = list(ex.map(cc, units))
        for src, rc, err in results:
            if rc != 0:
                log(f"BUILD FAILED: {src}\n{err[-4000:]}")
                shutil.rmtree(bdir, ignore_errors=True)
                raise SystemExit(2)
        cmd = [comp] + [os.path.join(bdir, u[1]) for u in units] + link + ["-o", exe + ".tmp"]
        p = subprocess.run(cmd, capture_output=True, text=True)
        if p.returncode != 0:
            log(f"LINK FAILED: {name}\n{p.stderr[-4000:]}")
            shutil.rmtree(bdir, ignore_errors=True)
            raise SystemExit(2)
        os.rename(exe + ".tmp", exe)
        for u in units:
            try:
                os.remove(os.path.join(bdir, u[1]))
            except OSError:
                pass
        log(f"[build] {name} built in {time.time() - t0:.1f}s")
        return exe
    finally:
        fcntl.flock(lock, fcntl.LOCK_UN)
        lock.close()


# ---------------------------------------------------------------------------
# Helpers

def run_parallel(cmds, timeout=None, env=None):
    """Runs commands in parallel (one per CPU); returns list of
    (cmd, returncode, stdout, stderr)."""
    def one(c):
        try:
            p = subprocess.run(c, capture_output=True, text=True, timeout=timeout, env=env)
            return (c, p.returncode, p.stdout, p.stderr)
        except subprocess.TimeoutExpired as e:
            return (c, "timeout", e.stdout or "", e.stderr or "")

    with cf.ThreadPoolExecutor(max_workers=NCPU) as ex:
        return list(ex.map(one, cmds))


def load_known_findings():
    p = os.path.join(VERIF, "known_findings.json")
    if not os.path.exists(p):
        return []
    with open(p) as f:
        return json.load(f).get("findings", [])


def merge_stats(files):
    counters = {}
    hashes = set()
    samples = []
    extra = 0
    for f in files:
        if not os.path.exists(f):
            continue
        try:
            with open(f) as fh:
                d = json.load(fh)
        except Exception:
            continue
        for k, v in d.get("counters", {}).items():
            counters[k] = counters.get(k, 0) + v
        hs = d.get("nontrivial_hashes", [])
        hashes.update(hs)
        extra += max(0, d.get("nontrivial_count", 0) - len(hs))
        for s in d.get("samples", []):
            if len(samples) < 6:
                samples.append(s)
    return counters, len(hashes) + extra, samples


def write_evidence(pid, tier, seed, level, coverage, wall, violations, assumptions):
    os.makedirs(EVID, exist_ok=True)
    for k in ("evaluations", "distinct_nontrivial", "states", "transitions", "traces_validated_against_impl",
              "obligations", "discharged", "programs", "disagreements_checked"):
        if k in coverage and not isinstance(coverage[k], int):
            raise SystemExit(f"evidence key {k} must be an integer (EVIDENCE.schema.json)")
    ev = {
        "property_id": pid,
        "tier": tier,
        "seed": int(seed),
        "level": level,
        "coverage": coverage,
        "assumptions": assumptions,
        "wall_s": round(wall, 2),
        "violations": violations,
    }
    p = os.path.join(EVID, f"{pid}.json")
    with open(p + ".tmp", "w") as f:
        json.dump(ev, f, indent=1)
    os.rename(p + ".tmp", p)


class Result:
    def __init__(self):
        self.violations = []      # list of (replay path, message)
        self.known = []           # KNOWN-FINDING lines
        self.inconclusive = []    # strings
        self.notes = []


def confirm_replay(exe, args, path, expect_fail_codes=(42,), times=3):
    """Re-runs a replay in fresh processes; returns True iff it fails every
    time (oracle failure exit 42, or a crash)."""
    fails = 0
    for _ in range(times):
        try:
            p = subprocess.run([exe] + args + ["--replay", path], capture_output=True, text=True, timeout=600)
        except subprocess.TimeoutExpired:
            continue
        if p.returncode != 0 and p.returncode != 2:
            fails += 1
    return fails == times


def replay_once(exe, args, path, timeout=600):
    try:
        p = subprocess.run([exe] + args + ["--replay", path], capture_output=True, text=True, timeout=timeout)
        return p.returncode, (p.stdout + p.stderr)[-2000:]
    except subprocess.TimeoutExpired:
        return "timeout", ""


def finish(pid, res):
    for k in res.known:
        print(k)
    for n in res.inconclusive:
        print(f"INCONCLUSIVE property={pid} {n}")
    if res.violations:
        for path, msg in res.violations:
            print(f"VIOLATION property={pid} replay={path}")
            log(f"  {msg}")
        return 1
    print(f"OK property={pid}")
    return 0


# ---------------------------------------------------------------------------
# Sequential-history checks: C01, C02, C10

SEQ_RULES = {
    "C08": "case = one injected fault: for every insert / remove of a generated history (all six index/key "
           "configurations) the library's allocation-failure injector fails exactly the k-th allocation of that "
           "operation, k = 1, 2, ... until the operation completes (so every allocation it makes is failed once); "
           "plus inserts with an over-long value (2^32 bytes) or key (2^32+1 bytes); oracle: std::bad_alloc / "
           "std::length_error reaches the caller and a snapshot (forward scan with values, get of every key, "
           "empty(), node counts, memory use, growth/shrink/split counters, the set of live blocks reported by the "
           "allocation hooks) is identical before and after; a spin-wait reached by the single-threaded harness "
           "means a lock was left held; the un-faulted repeat returns the model's result; non-trivial = a fault at "
           "the 2nd or a later allocation of an operation (something already allocated must be given back); "
           "distinct_nontrivial counts distinct histories containing such a fault",
    "C01": "case = generated history (universe -> insert/remove/get/empty/clear[/quiescent] ops) on one of six "
           "index configurations, interpreted against a std::map model with held-view re-reads; non-trivial = the "
           "history caused >=1 structural transition (leaf split, prefix split, growth/shrink between node classes, "
           "two-child collapse); distinct by 64-bit hash of the history text",
    "C02": "case = one scan query (scan / scan_from / scan_range with bound class, direction, halting position) on "
           "the content produced by a generated history; output compared with the model interval sequence; "
           "non-trivial = bound is not a stored key and the seek descends below the root into an inner child, or "
           "the visitor halted early, or the range is descending; distinct by hash(key-set hash, query text)",
    "C10": "case = generated history with statistics, allocator-reported live bytes and canonical radix-tree model "
           "compared after every mutating operation plus sorted-reload metamorphic checks; non-trivial = >=1 "
           "structural transition and the history revisits a key set reached earlier by a different route; distinct "
           "by hash of the history text; plus a concurrent part (see coverage.concurrent_part): olc_db executions "
           "under the deterministic scheduler checked once all threads have quiesced and drained",
}


def seq_known_findings(pid, exe, res):
    for kf in load_known_findings():
        if pid not in kf.get("properties", []):
            continue
        rep = kf.get("reproducers", {}).get(pid)
        if not rep:
            continue
        path = os.path.join(VERIF, rep)
        args = ["--prop", pid] + kf.get("replay_args", [])
        rc, out = replay_once(exe, args, path)
        if kf.get("status") == "known":
            if rc not in (0, 2, "timeout"):
                res.known.append(f"KNOWN-FINDING: property={pid} {kf['id']} {kf['what']}")
            else:
                res.notes.append(f"known finding {kf['id']} no longer reproduces (rc={rc})")
        else:  # fixed: an ordinary regression replay that must pass
            if rc not in (0,):
                if confirm_replay(exe, args, path):
                    res.violations.append((path, f"regression of fixed defect {kf['id']}: {out[-300:]}"))


def seq_replays(pid, exe, res):
    """Saved regression inputs (shrunk failures of fixed defects, seeds):
    must pass."""
    n = 0
    for path in sorted(glob.glob(os.path.join(VERIF, "replays", pid, "*.txt"))):
        with open(path) as f:
            head = f.read(400)
        if "# expect: fail" in head:
            continue  # reproducers of known findings are handled above
        if path.endswith(".search.txt"):
            continue  # scheduled programs (C10's concurrent part): replayed by the olc harness
        n += 1
        rexe, rargs = exe, ["--prop", pid]
        if "# engine: qsbr_fault" in head:
            rexe, rargs = build("qsbr_fault"), []
        rc, out = replay_once(rexe, rargs, path)
        if rc != 0:
            if confirm_replay(rexe, rargs, path):
                res.violations.append((path, out[-300:]))
    return n


def fuzz_seq_campaign(pid, tier, seed, seq_exe, outdir, res):
    """Second engine: coverage-guided libFuzzer over byte-coded histories with the same runner and
    oracles. Returns a dict for evidence."""
    fz = build("fuzz_seq")
    jobs = 4 if tier == "quick" else NCPU
    fdir = os.path.join(outdir, "fuzz")
    os.makedirs(fdir)
    cmds = []
    for j in range(jobs):
        cdir = os.path.join(fdir, f"corpus{j}")
        os.makedirs(cdir)
        lim = ["-runs=12000"] if tier == "quick" else ["-max_total_time=900"]
        cmds.append([fz, cdir, f"-seed={seed * 100 + j + 1}", "-max_len=700", "-print_final_stats=1",
                     f"-artifact_prefix={fdir}/art{j}_"] + lim)
    env = dict(os.environ, VERIF_FUZZ_PROP=pid, VERIF_FUZZ_OUT=fdir, ASAN_OPTIONS="detect_leaks=0")
    execs = 0
    units = 0
    for c, rc, out, err in run_parallel(cmds, timeout=3 * 3600, env=env):
        for l in err.splitlines():
            if l.startswith("stat::number_of_executed_units:"):
                execs += int(l.split()[-1])
            if l.startswith("stat::new_units_added:"):
                units += int(l.split()[-1])
        if rc == "timeout":
            res.inconclusive.append("libFuzzer job hit the wall-clock budget")
    faildir = os.path.join(FOUND, pid, "found")
    cases = sorted(glob.glob(os.path.join(fdir, "fuzz_fail_*.txt")))
    # crashes inside the target (assertion, sanitizer): decode the raw artifact back into a text case
    for art in sorted(glob.glob(os.path.join(fdir, "art*_crash-*")) + glob.glob(os.path.join(fdir, "art*_leak-*"))):
        subprocess.run([fz, art], capture_output=True, env=dict(env, VERIF_FUZZ_DUMP="1"), timeout=600)
        lc = os.path.join(fdir, "last_case.txt")
        if os.path.exists(lc):
            dst = art + ".txt"
            shutil.move(lc, dst)
            cases.append(dst)
    # (slow-unit / timeout / oom artifacts are load noise: ignored)
    seen = 0
    for case in cases[:6]:
        p = subprocess.run([seq_exe, "--prop", pid, "--shrink", case], capture_output=True, text=True, timeout=3600)
        if p.returncode == 1 and os.path.exists(case + ".shrunk"):
            if confirm_replay(seq_exe, ["--prop", pid], case + ".shrunk"):
                os.makedirs(faildir, exist_ok=True)
                dst = os.path.join(faildir, f"{pid}_libfuzzer_{seen}.txt")
                shutil.copy(case + ".shrunk", dst)
                res.violations.append((dst, p.stdout.strip()[-300:]))
                seen += 1
        elif p.returncode == 0:
            res.inconclusive.append(f"libFuzzer artifact does not fail in the generated-history harness: {case}")
    return {"engine": "libFuzzer (clang -fsanitize=fuzzer,address,undefined), structure-aware decode of bytes into "
                      "(configuration, universe seed, operation stream, scan queries); oracle inside the target",
            "jobs": jobs, "executions": execs, "corpus_units_added": units, "artifacts_examined": len(cases)}


def check_seq(pid, tier, seed):
    t0 = time.time()
    exe = build("seq")
    res = Result()
    seq_known_findings(pid, exe, res)
    nrep = seq_replays(pid, exe, res)
    outdir = os.path.join(WORK, "run", pid)
    shutil.rmtree(outdir, ignore_errors=True)
    os.makedirs(outdir)
    faildir = os.path.join(FOUND, pid, "found")
    if tier == "quick":
        plan = [(200, 6000)] * 12 + [(600, 800)] * 4
    else:
        plan = [(200, 800000)] * 8 + [(600, 80000)] * 6 + [(1500, 15000)] * 2
    if pid == "C10":
        plan = [(s, max(1, c // 3)) for s, c in plan]
    if pid == "C02" and tier != "quick":
        # a scan history costs ~2.5x a point history: keep the thorough tier near one hour on 16 cores
        plan = [(s, max(1, c * 3 // 8)) for s, c in plan]
    if pid == "C08":
        plan = [(60, 3000)] * 12 + [(150, 300)] * 4 if tier == "quick" else [(60, 60000)] * 10 + [(150, 6000)] * 6
    cmds = []
    for i, (size, cases) in enumerate(plan):
        cmds.append([exe, "--prop", pid, "--seed", str(seed * 1000 + i), "--cases", str(cases), "--size", str(size),
                     "--out", os.path.join(outdir, f"stats{i}.json"), "--fail-dir", outdir])
    results = run_parallel(cmds, timeout=3 * 3600)
    for c, rc, out, err in results:
        if rc == 0:
            continue
        if rc == 1 and "FAILURE " in out:
            line = [l for l in out.splitlines() if l.startswith("FAILURE ")][0]
            path = line.split()[1]
            msg = line.split("::", 1)[1].strip() if "::" in line else ""
            if confirm_replay(exe, ["--prop", pid], path):
                os.makedirs(faildir, exist_ok=True)
                dst = os.path.join(faildir, os.path.basename(path))
                shutil.copy(path, dst)
                res.violations.append((dst, msg))
            else:
                res.inconclusive.append(f"failure did not reproduce in 3 fresh processes: {path}")
        elif rc == 3:
            res.inconclusive.append("worker reported an unreproducible failure: " + out.strip()[-200:])
        elif rc == "timeout":
            res.inconclusive.append("worker hit the wall-clock budget")
        else:
            log(f"harness error rc={rc}: {' '.join(c)}\n{out[-500:]}\n{err[-1500:]}")
            raise SystemExit(2)
    stat_files = [os.path.join(outdir, f"stats{i}.json") for i in range(len(plan))]
    if pid == "C08":
        # QSBR part: resume / thread start / deferred-deallocation request (no-sanitizer build, operator new intercepted)
        qf = build("qsbr_fault")
        per = 4000 if tier == "quick" else 400000
        qcmds = [[qf, "--seed", str(seed * 1000 + 500 + i), "--cases", str(per), "--out",
                  os.path.join(outdir, f"qstats{i}.json"), "--fail-dir", outdir] for i in range(NCPU)]
        for c, rc, out, err in run_parallel(qcmds, timeout=3 * 3600):
            if rc == 0:
                continue
            if rc == 1 and "FAILURE " in out:
                line = [l for l in out.splitlines() if l.startswith("FAILURE ")][0]
                path = line.split()[1]
                msg = line.split("::", 1)[1].strip() if "::" in line else ""
                if confirm_replay(qf, [], path):
                    os.makedirs(faildir, exist_ok=True)
                    dst = os.path.join(faildir, os.path.basename(path))
                    shutil.copy(path, dst)
                    res.violations.append((dst, msg))
                else:
                    res.inconclusive.append(f"QSBR fault failure did not reproduce: {path}")
            elif rc == "timeout":
                res.inconclusive.append("qsbr_fault worker hit the wall-clock budget")
            else:
                os.makedirs(faildir, exist_ok=True)
                dst = os.path.join(faildir, f"C08_qsbr_crash_{c[2]}.txt")
                with open(dst, "w") as f:
                    f.write(f"# engine: qsbr_fault\n# process died rc={rc}: {' '.join(c)}\n# {err[-1500:]}\n")
                res.violations.append((dst, f"qsbr_fault crashed rc={rc}: {err[-300:]}"))
        stat_files += [os.path.join(outdir, f"qstats{i}.json") for i in range(NCPU)]
    fuzz = None
    if pid in ("C01", "C02", "C10"):
        fuzz = fuzz_seq_campaign(pid, tier, seed, exe, outdir, res)
    conc = None
    if pid == "C10":
        # concurrent part: olc_db after drained concurrent phases under the deterministic scheduler
        olc = build("olc")
        cdir = os.path.join(outdir, "conc")
        os.makedirs(cdir)
        if tier == "quick":
            cplans = [["--seed", str(seed * 1000 + 700 + i), "--programs", "16", "--dfs-p", "1", "--dfs-cap", "3000",
                       "--pct", "30", "--rand", "30"] for i in range(NCPU)]
        else:
            cplans = [["--seed", str(seed * 1000 + 700 + i), "--programs", "60", "--dfs-p", "2", "--dfs-cap", "20000",
                       "--pct", "60", "--rand", "60"] for i in range(NCPU)]
        nrep += sched_replays(pid, olc, res, only_search=True)
        run_sched_workers(pid, olc, cplans, cdir, res)
        conc = merge_stats(sched_stats_files(cdir, len(cplans)))
    counters, distinct, samples = merge_stats(stat_files)
    evaluations = counters.get("cases", 0)
    if pid == "C08":
        evaluations = counters.get("faults", 0)
    if pid == "C02":
        evaluations = sum(v for k, v in counters.items() if k.startswith("scans.") and k != "scans.with_halt")
    cov = {
        "evaluations": int(evaluations),
        "distinct_nontrivial": int(distinct),
        "rule": SEQ_RULES[pid],
        "samples": samples[:4] if samples else ["(no sample)"],
        "histories": counters.get("cases", 0),
        "operations": counters.get("ops", 0),
        "per_configuration": {k[6:]: v for k, v in counters.items() if k.startswith("cases.")},
        "universe_kinds": {k[9:]: v for k, v in counters.items() if k.startswith("universe.")},
        "structural_transitions": {k[11:]: v for k, v in counters.items() if k.startswith("transition.")},
        "excluded_known_findings": {"K1": counters.get("k1_excluded_ops", 0),
                                    "histories_touching_K1": counters.get("cases_with_k1_exclusion", 0)},
        "regression_replays": nrep,
        "inconclusive": res.inconclusive,
        "exhaustive": False,
    }
    if pid == "C02":
        cov["bound_classes"] = {k[12:]: v for k, v in counters.items() if k.startswith("bound_class.")}
        cov["scans"] = {k[6:]: v for k, v in counters.items() if k.startswith("scans.")}
        cov["bounds_rejected_as_not_prefix_free"] = counters.get("bound_rejected_not_prefix_free", 0)
        cov["scans_skipped_precondition"] = counters.get("scan_skipped_precondition", 0)
    if fuzz is not None:
        cov["second_engine_libfuzzer"] = fuzz
    if pid == "C10":
        cov["histories_revisiting_a_key_set"] = counters.get("cases_revisiting_a_key_set", 0)
        if conc is not None:
            cc, cd, cs = conc
            cov["concurrent_part"] = {
                "what": "olc_db programs under the deterministic scheduler (same generator as C03); after the drained "
                        "concurrent phase: node counts == canonical tree of the final key set, reported memory use == "
                        "bytes held from the allocator, counters never decreased, and the counters moved by no more "
                        "than the structural events of at least one order of the successful writes that respects "
                        "real-time precedence (every such order is replayed on the canonical model)",
                "executions": cc.get("executions", 0),
                "programs": cc.get("programs", 0),
                "distinct_nontrivial_executions (a structural change overlapped another operation)": cd,
                "structural_changes_under_contention": {k[29:]: v for k, v in cc.items()
                                                        if k.startswith("transitions_under_contention.")},
                "counter_oracle": {k: v for k, v in cc.items() if k.startswith(("counter_oracle_", "diagnostic_"))},
                "sample_program": cs[0] if cs else "",
            }
    if pid == "C08":
        cov["injected_faults"] = counters.get("faults", 0)
        cov["injected_faults_at_2nd_or_later_allocation"] = counters.get("faults_k2plus", 0)
        cov["faults_by_operation_and_k"] = {k[7:]: v for k, v in counters.items() if k.startswith("faults.")}
    write_evidence(pid, tier, seed, "fault_enumeration" if pid == "C08" else "exploration", cov, time.time() - t0,
                   len(res.violations),
                   ["the std::map / canonical-radix-tree models restate the property (no unodb code shared)",
                    "byte-string histories needing a compressed path > 7 bytes are excluded (known finding K1)",
                    "ASan+UBSan and the library's own assertions are enabled in the harness build"])
    return finish(pid, res)


# ---------------------------------------------------------------------------
# Key encoder checks: C11, C12, C15

ENC_RULES = {
    "C11": "exhaustive successor chains: every value of u8/i8/u16/i16/u32/i32 and every float bit pattern is "
           "compared with its successor in the stated total order (strict byte order of the encodings; all NaNs "
           "equal and above +inf), each chain step counted once; all pairs of texts over {01,02,ff} up to length 6 "
           "with 0-2 trailing zeros; plus generated pairs of component tuples of equal schema (structured + random "
           "64-bit integers, doubles, texts up to and beyond maxlen): sign(bytewise compare) == sign(tuple order); "
           "a generated pair is non-trivial if it differs first at a byte position > 0 or straddles a sign / "
           "exponent / special-value boundary; distinct by hash of the pair",
    "C12": "exhaustive: decode(encode(v)) bit-identical (canonical quiet NaN for NaNs) and size == sizeof(T) for "
           "every u8/i8/u16/i16/u32/i32 value and every float bit pattern; generated component sequences (1-200 "
           "components) encoded by a fresh encoder, by an encoder reused after reset() that had grown, and "
           "re-encoded; leading fixed-size components decoded in order; non-trivial = sequence crosses the "
           "256-byte internal buffer or has >= 2 components; distinct by hash",
    "C15": "all pairs of texts over {01,02,ff} up to length 6 with 0-2 trailing zeros (exhaustive) and generated "
           "pairs of component tuples of equal schema: encodings byte-equal iff components equal after "
           "normalisation, otherwise neither is a prefix of the other; size bound len+3 per text; guard-page test "
           "of the read bound (text ends at a PROT_NONE page after maxlen bytes, passed with a longer length); "
           "non-trivial = the two keys share >= 1 leading byte, or one text is a proper prefix of the other, or a "
           "text length is within 3 of maxlen; distinct by hash",
}


def check_enc(pid, tier, seed):
    t0 = time.time()
    fast = build("enc_fast")
    san = build("enc_san")
    res = Result()
    outdir = os.path.join(WORK, "run", pid)
    shutil.rmtree(outdir, ignore_errors=True)
    os.makedirs(outdir)
    faildir = os.path.join(FOUND, pid, "found")
    nrep = 0
    for path in sorted(glob.glob(os.path.join(VERIF, "replays", pid, "*.txt"))):
        nrep += 1
        rc, out = replay_once(san, ["--prop", pid], path)
        if rc != 0 and confirm_replay(san, ["--prop", pid], path):
            res.violations.append((path, out[-300:]))
    cmds = []
    names = []
    parts = NCPU
    if pid in ("C11", "C12"):
        for i in range(parts):
            names.append(f"chains{i}")
            cmds.append([fast, "chains", "--prop", pid, "--part", str(i), "--parts", str(parts)])
    if pid in ("C11", "C15"):
        for i in range(4):
            names.append(f"smalltext{i}")
            cmds.append([fast, "smalltext", "--prop", pid, "--part", str(i), "--parts", "4"])
    if pid == "C15":
        names.append("guard")
        cmds.append([fast, "guard", "--prop", pid, "--seed", str(seed)])
        names.append("guard_san")
        cmds.append([san, "guard", "--prop", pid, "--seed", str(seed + 1)])
    per = {"C11": 60000, "C12": 15000, "C15": 60000}[pid] * (1 if tier == "quick" else 40)
    for i in range(NCPU):
        names.append(f"pairs{i}")
        cmds.append([san, "pairs", "--prop", pid, "--seed", str(seed * 1000 + i), "--cases", str(per)])
    full = []
    for n, c in zip(names, cmds):
        full.append(c + ["--out", os.path.join(outdir, n + ".json"), "--fail-dir", outdir])
    results = run_parallel(full, timeout=6 * 3600)
    for c, rc, out, err in results:
        if rc == 0:
            continue
        exe = c[0]
        if rc == 1 and "FAILURE " in out:
            line = [l for l in out.splitlines() if l.startswith("FAILURE ")][0]
            path = line.split()[1]
            msg = line.split("::", 1)[1].strip() if "::" in line else ""
            if "guard" in os.path.basename(path) or confirm_replay(san, ["--prop", pid], path):
                os.makedirs(faildir, exist_ok=True)
                dst = os.path.join(faildir, os.path.basename(path))
                shutil.copy(path, dst)
                res.violations.append((dst, msg))
            else:
                res.inconclusive.append(f"failure did not reproduce: {path}")
        elif rc == "timeout":
            res.inconclusive.append("worker hit the wall-clock budget")
        elif c[1] == "guard" and rc not in (0, 1, 2):
            # a fault while encoding the guarded text: read beyond maxlen
            os.makedirs(faildir, exist_ok=True)
            dst = os.path.join(faildir, "C15_guard_page_fault.txt")
            with open(dst, "w") as f:
                f.write("# encode_text faulted on a text that ends at a PROT_NONE page after maxlen bytes\nguard\n")
            res.violations.append((dst, f"guard-page run died with rc={rc}: {err[-300:]}"))
        else:
            # sanitizer report / crash inside the encoder while generating pairs
            os.makedirs(faildir, exist_ok=True)
            dst = os.path.join(faildir, f"{pid}_crash_{os.path.basename(c[-3])}.txt")
            with open(dst, "w") as f:
                f.write(f"# harness process died rc={rc}; re-run: {' '.join(c)}\n# {err[-1500:]}\n")
            res.violations.append((dst, f"crash rc={rc}: {err[-300:]}"))
    # second engine: libFuzzer over byte-coded (schema, tuple pair) inputs, same oracle inside the target
    fz = build("fuzz_enc")
    fdir = os.path.join(outdir, "fuzz")
    os.makedirs(fdir)
    fjobs = 4 if tier == "quick" else NCPU
    fcmds = []
    for j in range(fjobs):
        cdir = os.path.join(fdir, f"corpus{j}")
        os.makedirs(cdir)
        fcmds.append([fz, cdir, f"-seed={seed * 100 + j + 1}", "-max_len=500", "-print_final_stats=1",
                      f"-artifact_prefix={fdir}/art{j}_"] + (["-runs=60000"] if tier == "quick" else ["-max_total_time=600"]))
    fenv = dict(os.environ, VERIF_FUZZ_PROP=pid, VERIF_FUZZ_OUT=fdir, ASAN_OPTIONS="detect_leaks=0")
    fexecs = 0
    for c, rc, out, err in run_parallel(fcmds, timeout=3 * 3600, env=fenv):
        for l in err.splitlines():
            if l.startswith("stat::number_of_executed_units:"):
                fexecs += int(l.split()[-1])
    fcases = sorted(glob.glob(os.path.join(fdir, "fuzz_fail_*.txt")))
    for art in sorted(glob.glob(os.path.join(fdir, "art*_crash-*"))):
        subprocess.run([fz, art], capture_output=True, env=dict(fenv, VERIF_FUZZ_DUMP="1"), timeout=600)
        lc = os.path.join(fdir, "last_case.txt")
        if os.path.exists(lc):
            shutil.move(lc, art + ".txt")
            fcases.append(art + ".txt")
    for k, case in enumerate(fcases[:4]):
        if confirm_replay(san, ["--prop", pid], case):
            os.makedirs(faildir, exist_ok=True)
            dst = os.path.join(faildir, f"{pid}_libfuzzer_{k}.txt")
            shutil.copy(case, dst)
            res.violations.append((dst, "found by libFuzzer: " + open(case).readline().strip()[:200]))
    counters, distinct, samples = merge_stats([os.path.join(outdir, n + ".json") for n in names])
    chain = counters.get("chain_steps", 0)
    small = counters.get("smalltext_pairs", 0)
    pairs = counters.get("pairs", 0)
    cov = {
        "evaluations": int(chain + small + pairs + counters.get("guard_page_encodes", 0)),
        "distinct_nontrivial": int(distinct + chain + counters.get("smalltext_pairs_nontrivial", 0)),
        "rule": ENC_RULES[pid],
        "samples": samples[:6] if samples else ["(no sample)"],
        "chain_steps": {k[12:]: v for k, v in counters.items() if k.startswith("chain_steps.")},
        "exhaustive_subdomains": (["u8", "i8", "u16", "i16", "u32", "i32", "f32 (all 2^32 bit patterns)"]
                                  if pid in ("C11", "C12") else []) +
                                 (["texts over {01,02,ff} of length <= 6 with 0-2 trailing zeros, all pairs"]
                                  if pid in ("C11", "C15") else []),
        "small_text_pairs": small,
        "generated_pairs": pairs,
        "generated_pairs_nontrivial_distinct": distinct,
        "components_by_type": {k[10:]: v for k, v in counters.items() if k.startswith("component.")},
        "discarded_outside_domain_interior_zero": counters.get("discarded_interior_zero", 0),
        "guard_page_encodes": counters.get("guard_page_encodes", 0),
        "second_engine_libfuzzer": {"jobs": fjobs, "executions": fexecs, "artifacts_examined": len(fcases)},
        "regression_replays": nrep,
        "inconclusive": res.inconclusive,
        "exhaustive": False,
    }
    write_evidence(pid, tier, seed, "exploration", cov, time.time() - t0, len(res.violations),
                   ["oracle = documented total orders restated with comparison operators, libm nextafter and "
                    "std::string (no encoder code shared)",
                    "exhaustive chains run in an optimised build without sanitizers; generated pairs under ASan+UBSan"])
    return finish(pid, res)


# ---------------------------------------------------------------------------
# Scheduled (concurrent) checks

def sched_stats_files(outdir, n):
    files = []
    for i in range(n):
        files += glob.glob(os.path.join(outdir, f"stats{i}.json.*"))
    return files


def run_sched_workers(pid, exe, plans, outdir, res, extra_args=None, timeout=6 * 3600):
    """plans: list of argument lists (one worker each). Collects failures."""
    faildir = os.path.join(FOUND, pid, "found")
    cmds = []
    for i, pl in enumerate(plans):
        this_exe = exe
        if pl and pl[0] == "--exe":      # per-worker harness binary (e.g. the NDEBUG build)
            this_exe, pl = pl[1], pl[2:]
        cmds.append([this_exe, "--prop", pid, "--cpu", str(i % NCPU), "--out", os.path.join(outdir, f"stats{i}.json"),
                     "--fail-dir", outdir] + pl + (extra_args or []))
    results = run_parallel(cmds, timeout=timeout)
    harness_errors = 0
    for c, rc, out, err in results:
        for line in out.splitlines():
            if line.startswith("INCONCLUSIVE "):
                res.inconclusive.append(line[13:])
        if rc == 0:
            continue
        if rc == 1 and "FAILURE " in out:
            line = [l for l in out.splitlines() if l.startswith("FAILURE ")][0]
            path = line.split()[1]
            msg = line.split("::", 1)[1].strip() if "::" in line else ""
            if confirm_replay(c[0], ["--prop", pid] + (extra_args or []), path):
                os.makedirs(faildir, exist_ok=True)
                dst = os.path.join(faildir, os.path.basename(path))
                shutil.copy(path, dst)
                if c[0] != exe:
                    with open(dst, "a") as f:
                        f.write(f"# found with the harness build {os.path.basename(c[0])}\n")
                res.violations.append((dst, msg))
            else:
                res.inconclusive.append(f"failure did not reproduce in 3 fresh processes: {path}")
        elif rc == "timeout":
            res.inconclusive.append("worker hit the wall-clock budget")
        else:
            # the harness itself gave up (e.g. scheduler self-check): never a verdict about the library
            log(f"harness error rc={rc}: {' '.join(c)}\n{out[-500:]}\n{err[-1500:]}")
            res.inconclusive.append(f"worker {os.path.basename(c[0])} ended with a harness error (rc={rc}): {err.strip()[-160:]}")
            harness_errors += 1
    if harness_errors and harness_errors == len(cmds):
        raise SystemExit(2)   # nothing was explored at all


CURRENT_TIER = "quick"


def sched_replays(pid, exe, res, extra_args=None, only_search=False):
    """Saved regression inputs of the scheduled harnesses: exact (program, schedule) replays and
    '*.search.txt' files (program + bounded schedule search, robust against step renumbering).
    All must pass. The searches are independent processes and run in parallel."""
    import concurrent.futures
    paths = []
    for path in sorted(glob.glob(os.path.join(VERIF, "replays", pid, "*.search.txt" if only_search else "*.txt"))):
        with open(path) as f:
            head = f.read(600)
        if "# expect: fail" in head:
            continue
        paths.append(path)
    xargs = extra_args or []

    def one(path):
        if path.endswith(".search.txt"):
            found = path + ".found"
            try:
                os.remove(found)
            except OSError:
                pass
            # quick: every schedule with <= 1 preemption; thorough: <= 2 (capped)
            p = subprocess.run([exe, "--prop", pid, "--search", path] +
                               (["--dfs-p", "2", "--dfs-cap", "30000"] if CURRENT_TIER == "thorough"
                                else ["--dfs-p", "1", "--dfs-cap", "50000"]) + xargs,
                               capture_output=True, text=True, timeout=1800)
            return p.returncode, ""
        return replay_once(exe, ["--prop", pid] + xargs, path)

    with concurrent.futures.ThreadPoolExecutor(max_workers=NCPU) as ex:
        results = list(ex.map(one, paths))
    for path, (rc, out) in zip(paths, results):
        if path.endswith(".search.txt"):
            found = path + ".found"
            if rc not in (0, 2):
                dst_dir = os.path.join(FOUND, pid, "found")
                os.makedirs(dst_dir, exist_ok=True)
                dst = os.path.join(dst_dir, os.path.basename(path).replace(".search.txt", ".txt"))
                if os.path.exists(found):
                    shutil.move(found, dst)
                    if confirm_replay(exe, ["--prop", pid] + xargs, dst):
                        res.violations.append((dst, "regression: " + os.path.basename(path)))
                else:
                    shutil.copy(path, dst)
                    res.violations.append((dst, f"regression (rc={rc}): " + os.path.basename(path)))
            elif rc == 2:
                res.inconclusive.append("regression search " + os.path.basename(path) + ": harness error")
            continue
        if rc != 0 and confirm_replay(exe, ["--prop", pid] + xargs, path):
            res.violations.append((path, out[-300:]))
    return len(paths)


def sched_coverage(pid, counters, distinct, samples, rule, res, nrep):
    return {
        "evaluations": int(counters.get("executions", 0)),
        "distinct_nontrivial": int(distinct),
        "rule": rule,
        "samples": samples[:4] if samples else ["(no sample)"],
        "programs_explored": counters.get("programs", 0),
        "programs_exhaustive_to_bound": counters.get("programs_dfs_complete", 0),
        "programs_dfs_capped": counters.get("programs_dfs_capped", 0),
        "program_classes": {k[9:]: v for k, v in counters.items() if k.startswith("programs_")
                            and k not in ("programs_dfs_complete", "programs_dfs_capped")},
        "executions_by_generator": {k[11:]: v for k, v in counters.items() if k.startswith("executions.")},
        "executions_by_preemptions": {k[26:]: v for k, v in counters.items() if k.startswith("executions_by_preemptions.")},
        "executions_with_spin": counters.get("executions_with_spin", 0),
        "scheduler_steps": counters.get("steps", 0),
        "other_counters": {k: v for k, v in counters.items()
                           if not k.startswith(("executions.", "executions_by", "programs", "steps", "dfs_"))
                           and k != "executions"},
        "regression_replays": nrep,
        "inconclusive": res.inconclusive,
        "exhaustive": False,
    }


C07_RULE = ("case = one execution (program, schedule): a generated script of 2-3 threads over one optimistic_lock "
            "guarding three protected words (read sections with reads/check/unlock, upgrades, three-store writes, "
            "unlock, unlock-and-obsolete) under the deterministic scheduler; schedules: exhaustive DFS over all "
            "schedules with <= P preemptions (P in evidence), plus PCT and random walks; oracle: stamped-history "
            "invariants (writers exclusive, validated sections did not overlap a write-locked period and read a "
            "snapshot, upgrade only if no writer acquired since open, obsolete is final); non-trivial = another "
            "thread touched the lock inside a write-locked period; distinct by hash(program, schedule)")


def check_c07(pid, tier, seed):
    t0 = time.time()
    exe = build("lock")
    res = Result()
    nrep = sched_replays(pid, exe, res)
    outdir = os.path.join(WORK, "run", pid)
    shutil.rmtree(outdir, ignore_errors=True)
    os.makedirs(outdir)
    if tier == "quick":
        progs, P, cap = 40, 2, 30000
        plans = [["--seed", str(seed * 1000 + i), "--programs", str(progs), "--dfs-p", str(P), "--dfs-cap", str(cap),
                  "--pct", "30", "--rand", "30"] for i in range(NCPU)]
    else:
        plans = [["--seed", str(seed * 1000 + i), "--programs", "400", "--dfs-p", "2", "--dfs-cap", "60000",
                  "--pct", "100", "--rand", "100"] for i in range(NCPU - 4)]
        plans += [["--seed", str(seed * 1000 + 100 + i), "--programs", "40", "--dfs-p", "3", "--dfs-cap", "400000",
                   "--pct", "0", "--rand", "0"] for i in range(4)]
    run_sched_workers(pid, exe, plans, outdir, res)
    counters, distinct, samples = merge_stats(sched_stats_files(outdir, len(plans)))
    cov = sched_coverage(pid, counters, distinct, samples, C07_RULE, res, nrep)
    cov["preemption_bound"] = "2 (quick); 2 and 3 (thorough)"
    write_evidence(pid, tier, seed, "exploration", cov, time.time() - t0, len(res.violations),
                   ["sequential consistency at the granularity of one hooked access (every atomic access of "
                    "optimistic_lock and in_critical_section is a scheduling point)",
                    "the oracle uses conservative stamp intervals: only definite overlaps count as violations"])
    return finish(pid, res)


QSBR_RULES = {
    "C05": "case = one execution (program, schedule): programs of 2-4 QSBR threads over abstract objects with "
           "operations {take a reference, drop references, retire (on_next_epoch_deallocate), quiescent, pause, "
           "resume, await (harness-level ordering)} - a catalogue of epoch-change races plus generated programs - "
           "under the deterministic scheduler (exhaustive DFS to a preemption bound, PCT, random walk); oracle at "
           "every free notification: no thread holds a reference; every other thread registered at the request "
           "has had a quiescent/pause call ending after it (in progress counts); immediate execution only with "
           "<= 1 registered thread; non-trivial = a free happened while >= 2 threads were registered and the "
           "schedule contains >= 1 preemption; distinct by hash(program, schedule)",
    "C06": "same programs and schedules as C05, each followed by a deterministic drain (three rounds in which "
           "every registered thread quiesces once; then all but one thread pause and the remaining one quiesces "
           "twice); oracle: free notifications per retired block in {0,1} at all times and == 1 after the three "
           "rounds, registered-thread count reported by QSBR == harness count whenever no pause/resume is in "
           "flight, emptiness getters true and nothing unfreed after the final two quiescent states; non-trivial = "
           ">= 1 request was orphaned (its requester paused before it was freed); distinct by hash(program, schedule)",
}


def check_qsbr(pid, tier, seed):
    t0 = time.time()
    with cf.ThreadPoolExecutor(max_workers=2) as ex:
        f1 = ex.submit(build, "qsbr")
        f2 = ex.submit(build, "qsbr_stats")   # statistics compiled in (other code paths in quiescent / unregister)
        exe, exe_stats = f1.result(), f2.result()
    res = Result()
    nrep = sched_replays(pid, exe, res)
    outdir = os.path.join(WORK, "run", pid)
    shutil.rmtree(outdir, ignore_errors=True)
    os.makedirs(outdir)
    if tier == "quick":
        plans = [["--seed", str(seed * 1000 + i), "--programs", "30", "--dfs-p", "2" if i % 2 == 0 else "1",
                  "--dfs-cap", "15000", "--pct", "40", "--rand", "40"] for i in range(NCPU)]
    else:
        plans = [["--seed", str(seed * 1000 + i), "--programs", "500", "--dfs-p", "2", "--dfs-cap", "60000",
                  "--pct", "100", "--rand", "100"] for i in range(NCPU - 2)]
        plans += [["--seed", str(seed * 1000 + 100 + i), "--programs", "12", "--dfs-p", "3", "--dfs-cap", "1500000",
                   "--pct", "0", "--rand", "0"] for i in range(2)]
    plans = [(["--exe", exe_stats] + pl) if i % 4 == 3 else pl for i, pl in enumerate(plans)]
    run_sched_workers(pid, exe, plans, outdir, res)
    counters, distinct, samples = merge_stats(sched_stats_files(outdir, len(plans)))
    cov = sched_coverage(pid, counters, distinct, samples, QSBR_RULES[pid], res, nrep)
    cov["harness_builds"] = "12 workers: statistics compiled out; 4 workers: statistics compiled in (both ASan+UBSan+assertions)"
    cov["preemption_bound"] = "1-2 (quick), 2-3 (thorough)"
    write_evidence(pid, tier, seed, "exploration", cov, time.time() - t0, len(res.violations),
                   ["sequential consistency at the granularity of one hooked access of the QSBR state word and "
                    "orphan lists", "thread start/exit are exercised as resume/pause (the same register_thread / "
                    "unregister_thread code)", "a quarter of the workers use a harness build with statistics compiled in"])
    return finish(pid, res)


OLC_GEN = ("programs = initial tree built around a focus node whose fan-out sits at a size-class boundary (1,2,3,4,5,16,"
           "17,48,49 children) under 0-2 upper levels and a 0-3 byte compressed path, with inner children below it "
           "and sibling branches above it, plus 2-3 threads x 1-3 operations (get / insert / remove [/ scans]) on "
           "keys of that neighbourhood with quiescent states after every operation or only at thread end; "
           "schedules: exhaustive DFS over all schedules with <= P preemptions (up to an execution cap per "
           "program), PCT and random walks; ")
OLC_RULES = {
    "C03": OLC_GEN + "oracle: per-key Wing-Gong linearizability of the stamped call/return/result history (values "
           "are unique per insert), including a final single-threaded read of every key; non-trivial = >= 1 "
           "preemption and a successful writer overlapping another operation; distinct by hash(program, schedule)",
    "C04": OLC_GEN + "oracle: ASan on every access, value views from get and scan re-read before the holder's next "
           "quiescent state, allocation/free notifications (exactly-once: ASan traps a second free; nothing lost: "
           "destroying the index after the drain must empty the set of live tree blocks), post-run single-threaded sweep "
           "touching every node; non-trivial = a node or leaf was freed during the concurrent phase, or retired by "
           "a structural change overlapping another operation; distinct by hash(program, schedule)",
    "C09": OLC_GEN + "one or two scanning threads (scan / scan_from / scan_range, both directions, optional halt; "
           "the visitor is a scheduling point); oracle per scan: strictly monotone keys, inside the interval, each "
           "value held by its key at some moment during the scan, exactly once for keys stable over the scan, "
           "never for stably absent keys; non-trivial = a successful insert/remove overlapped the scan; distinct "
           "by hash(program, schedule)",
    "C14": OLC_GEN + "oracle: scheduler deadlock verdict (all unfinished threads spin without progress), "
           "single-threaded sweep after every execution (get of every key, full scans, insert+remove probe next "
           "to every key) must never reach a spin-wait, bounded progress (step limit => inconclusive); "
           "non-trivial = the execution contained >= 1 spin-wait (contention happened); distinct by hash(program, "
           "schedule)",
}


def check_olc(pid, tier, seed):
    t0 = time.time()
    with cf.ThreadPoolExecutor(max_workers=2) as ex:   # the two harness builds in parallel
        f1 = ex.submit(build, "olc")
        f2 = ex.submit(build, "olc_nd")   # NDEBUG variant (the repository's baseline configuration defines NDEBUG)
        exe, exe_nd = f1.result(), f2.result()
    res = Result()
    nrep = sched_replays(pid, exe, res)
    outdir = os.path.join(WORK, "run", pid)
    shutil.rmtree(outdir, ignore_errors=True)
    os.makedirs(outdir)
    if tier == "quick":
        # 6 of 16 workers: minimal pairs (2 threads x 1 operation), every schedule with <= 2 preemptions;
        # 4 of 16: "nested" minimal pairs (focus node vs. its direct parent, both at a size-class boundary);
        # the others: richer programs, every schedule with <= 1 preemption, plus PCT / random walks
        plans = []
        for i in range(NCPU):
            if i % 8 in (4, 7):
                # minimal pairs in which one thread restructures the focus node and the other its direct parent
                # (larger trees, longer executions: few programs per worker)
                plans.append(["--seed", str(seed * 1000 + i), "--shape", "nested", "--programs", "6", "--dfs-p", "2",
                              "--dfs-cap", "8000", "--pct", "20", "--rand", "20"])
            elif i % 2 == 0:
                plans.append(["--seed", str(seed * 1000 + i), "--shape", "pairs", "--programs", "14", "--dfs-p", "2",
                              "--dfs-cap", "12000", "--pct", "20", "--rand", "20"])
            else:
                plans.append(["--seed", str(seed * 1000 + i), "--programs", "24", "--dfs-p", "1",
                              "--dfs-cap", "4000", "--pct", "40", "--rand", "40"])
    else:
        plans = []
        for i in range(NCPU):
            if i % 8 == 4:
                plans.append(["--seed", str(seed * 1000 + i), "--shape", "nested", "--programs", "80", "--dfs-p", "3",
                              "--dfs-cap", "60000", "--pct", "50", "--rand", "50"])
            elif i % 4 == 0:
                plans.append(["--seed", str(seed * 1000 + i), "--shape", "pairs", "--programs", "60", "--dfs-p", "3",
                              "--dfs-cap", "60000", "--pct", "50", "--rand", "50"])
            else:
                plans.append(["--seed", str(seed * 1000 + i), "--programs", "120", "--dfs-p", "2", "--dfs-cap", "30000",
                              "--pct", "150", "--rand", "150", "--pct-depth", "4"])
    # every fourth worker (offset 2, 3 alternating shapes) runs the NDEBUG build
    plans = [(["--exe", exe_nd] + pl) if i % 8 in (2, 5) else pl for i, pl in enumerate(plans)]
    run_sched_workers(pid, exe, plans, outdir, res)
    fault_part = None
    if pid == "C14":
        # "additionally every allocation-failure point of C08 on the OLC index": the sequential harness runs its
        # fault loops on the two olc configurations; here only a lock left held (a spin-wait reached
        # single-threaded after a failed operation) counts
        seq_exe = build("seq")
        fdir = os.path.join(outdir, "faults")
        os.makedirs(fdir)
        per = 1500 if tier == "quick" else 40000
        fcmds = [[seq_exe, "--prop", "C14", "--cfgs", "2,5", "--seed", str(seed * 1000 + 900 + i), "--cases", str(per),
                  "--size", "60", "--out", os.path.join(fdir, f"stats{i}.json"), "--fail-dir", fdir] for i in range(4)]
        for c, rc, out, err in run_parallel(fcmds, timeout=3 * 3600):
            if rc == 1 and "FAILURE " in out:
                line = [l for l in out.splitlines() if l.startswith("FAILURE ")][0]
                path = line.split()[1]
                msg = line.split("::", 1)[1].strip() if "::" in line else ""
                if confirm_replay(seq_exe, ["--prop", "C14"], path):
                    fd = os.path.join(FOUND, pid, "found")
                    os.makedirs(fd, exist_ok=True)
                    dst = os.path.join(fd, os.path.basename(path))
                    shutil.copy(path, dst)
                    with open(dst, "a") as f:
                        f.write("# engine: seq (replay with: seq --prop C14 --replay FILE)\n")
                    res.violations.append((dst, "after an injected allocation failure on olc_db: " + msg))
        fc, fd_, fs = merge_stats([os.path.join(fdir, f"stats{i}.json") for i in range(4)])
        fault_part = {"histories": fc.get("cases", 0), "injected_faults_on_olc_db": fc.get("faults", 0),
                      "of_which_at_2nd_or_later_allocation": fc.get("faults_k2plus", 0),
                      "oracle": "the single-threaded harness treats any spin-wait as a lock left held"}
    counters, distinct, samples = merge_stats(sched_stats_files(outdir, len(plans)))
    cov = sched_coverage(pid, counters, distinct, samples, OLC_RULES[pid], res, nrep)
    if fault_part is not None:
        cov["allocation_failure_points_on_olc_db"] = fault_part
    cov["harness_builds"] = "12 workers: assertions+ASan+UBSan+stats; 4 workers: NDEBUG+ASan+UBSan+stats"
    cov["preemption_bound"] = "1-2 (quick), 2 (thorough), capped per program (see programs_dfs_capped)"
    write_evidence(pid, tier, seed, "exploration", cov, time.time() - t0, len(res.violations),
                   ["sequential consistency at the granularity of one hooked access (lock word load/CAS/store, "
                    "protected field load/store, QSBR state); SIMD reads of node key arrays execute atomically with "
                    "the next hooked access", "keys of the scheduled harness are 8 bytes long: as uint64 (two thirds of the programs) or as fixed-length byte strings (one third)",
                    "ASan+UBSan, assertions and statistics enabled"])
    return finish(pid, res)


C17_RULE = ("case = one generated operation sequence over 4 qsbr_ptr slots, 3 byte buffers and 2 qsbr_ptr_span slots "
            "(construct from pointer / null / default, copy- and move-construct, copy- and move-assign between "
            "distinct slots, ++ -- += -= + - (inside the buffer, never on null), * [] -> difference, all "
            "comparisons, destroy; spans from spans incl. empty and null data, copies, moves, iteration) compared "
            "step by step with a shadow model of raw pointers; liveness probes after generated prefixes fork a "
            "child that calls quiescent() or pause()+resume(): in the assertion-enabled build it must abort iff "
            ">= 1 non-null wrapper is alive, in the NDEBUG build it must never abort; plus ALL sequences up to "
            "length 4 over a reduced 25-operation alphabet on 2 slots (exhaustive); non-trivial = the sequence "
            "contains an assignment over a live non-null wrapper, or a moved-from / null wrapper destroyed later, "
            "or pointer arithmetic on a registered wrapper; distinct by hash of the sequence")


def check_c17(pid, tier, seed):
    t0 = time.time()
    dbg = build("qp_dbg")
    ndbg = build("qp_ndbg")
    res = Result()
    outdir = os.path.join(WORK, "run", pid)
    shutil.rmtree(outdir, ignore_errors=True)
    os.makedirs(outdir)
    faildir = os.path.join(FOUND, pid, "found")
    nrep = 0
    for path in sorted(glob.glob(os.path.join(VERIF, "replays", pid, "*.txt"))):
        nrep += 1
        for exe in (dbg, ndbg):
            rc, out = replay_once(exe, [], path)
            if rc != 0 and confirm_replay(exe, [], path):
                res.violations.append((path, out[-300:]))
    per = 1200 if tier == "quick" else 40000
    cmds, names = [], []
    for i in range(NCPU):
        names.append(f"exh{i}")
        cmds.append([dbg, "--exhaustive", "--part", str(i), "--parts", str(NCPU)])
    for i in range(NCPU):
        names.append(f"rnd{i}")
        cmds.append([dbg, "--seed", str(seed * 1000 + i), "--cases", str(per)])
    for i in range(4):
        names.append(f"ndbg{i}")
        cmds.append([ndbg, "--seed", str(seed * 1000 + 100 + i), "--cases", str(per // 2)])
    full = [c + ["--out", os.path.join(outdir, n + ".json"), "--fail-dir", outdir] for n, c in zip(names, cmds)]
    for c, rc, out, err in run_parallel(full, timeout=6 * 3600):
        if rc == 0:
            continue
        if rc == 1 and "FAILURE " in out:
            line = [l for l in out.splitlines() if l.startswith("FAILURE ")][0]
            path = line.split()[1]
            msg = line.split("::", 1)[1].strip() if "::" in line else ""
            if confirm_replay(c[0], [], path):
                os.makedirs(faildir, exist_ok=True)
                dst = os.path.join(faildir, os.path.basename(path))
                shutil.copy(path, dst)
                res.violations.append((dst, msg))
            else:
                res.inconclusive.append(f"failure did not reproduce: {path}")
        elif rc == "timeout":
            res.inconclusive.append("worker hit the wall-clock budget")
        else:
            os.makedirs(faildir, exist_ok=True)
            dst = os.path.join(faildir, f"C17_crash_{os.path.basename(c[-3])}.txt")
            with open(dst, "w") as f:
                f.write(f"# harness process died rc={rc}: {' '.join(c)}\n# {err[-1500:]}\n")
            res.violations.append((dst, f"crash rc={rc}: {err[-300:]}"))
    counters, distinct, samples = merge_stats([os.path.join(outdir, n + ".json") for n in names])
    cov = {
        "evaluations": int(counters.get("cases", 0)),
        "distinct_nontrivial": int(distinct),
        "rule": C17_RULE,
        "samples": samples[:3] if samples else ["(no sample)"],
        "operations": counters.get("ops", 0),
        "liveness_probes": counters.get("probes", 0),
        "probes_expect_rejected": counters.get("probes_expect_rejected", 0),
        "probes_expect_accepted": counters.get("probes_expect_accepted", 0),
        "probes_in_ndebug_build": counters.get("probes_ndebug", 0),
        "exhaustive_sequences_up_to_length_4": counters.get("exhaustive_sequences", 0),
        "exhaustive_subdomains": ["all sequences of length <= 4 over the reduced 25-operation alphabet on 2 slots, "
                                  "liveness probed at the end of each (every prefix is a sequence of its own)"],
        "regression_replays": nrep,
        "inconclusive": res.inconclusive,
        "exhaustive": False,
    }
    write_evidence(pid, tier, seed, "exploration", cov, time.time() - t0, len(res.violations),
                   ["the shadow model is plain raw-pointer arithmetic inside the buffers",
                    "self-assignment and arithmetic outside the buffer / on null are excluded (UB or excluded by the statement)",
                    "abort of the forked child == rejection (UNODB_DETAIL_ASSERT in quiescent()/qsbr_pause())"])
    return finish(pid, res)


def cfgx_desc(i):
    return "+".join(["AVX2" if i & 1 else "SSE4.1", "stats" if i & 2 else "nostats",
                     "assert" if i & 4 else "NDEBUG", "PAUSE" if i & 8 else "EMPTY"])


C16_RULE = ("case = one generated history (point operations and scans of C01/C02, uint64 keys and byte-string keys of "
            "at most 8 bytes, all three index classes) executed by 16 build configurations {AVX2,SSE4.1} x {stats "
            "on,off} x {assertions,NDEBUG} x {PAUSE,EMPTY spin} without any model; oracle: the hash of the result "
            "trace (return values, get bytes, scan output) is identical in all 16, the hash of all statistics "
            "after every operation is identical in the 8 statistics builds, every executor exits 0 (an internal "
            "assertion is SIGABRT); non-trivial = the history reaches an inode_16 or inode_48 (the SIMD search / "
            "insert-position / free-slot code that differs between AVX2 and SSE4.1) or contains scan -> remove on "
            "olc_db; distinct by (seed, case index)")


def check_c16(pid, tier, seed):
    t0 = time.time()
    res = Result()
    with cf.ThreadPoolExecutor(max_workers=4) as ex:   # each build is itself parallel
        exes = list(ex.map(lambda i: build(f"cfgx_{i}"), range(16)))
    outdir = os.path.join(WORK, "run", pid)
    shutil.rmtree(outdir, ignore_errors=True)
    os.makedirs(outdir)
    faildir = os.path.join(FOUND, pid, "found")
    # regression replays: every configuration must agree and exit normally
    nrep = 0
    for path in sorted(glob.glob(os.path.join(VERIF, "replays", pid, "*.txt"))):
        nrep += 1
        outs_r = []
        for i in range(16):
            q = subprocess.run([exes[i], "--replay", path], capture_output=True, text=True, timeout=600)
            t_ = q.stdout.split()
            outs_r.append((q.returncode, [t_[4], t_[5], t_[7], i & 5] if q.returncode == 0 and len(t_) >= 8 else None))
        bad = any(rc != 0 for rc, _ in outs_r) or len({o[0] for rc, o in outs_r if o}) > 1 or \
            len({o[1] for rc, o in outs_r if o and o[1] != "-"}) > 1 or \
            any(len({o[2] for rc, o in outs_r if o and o[2] != "-" and o[3] == g}) > 1 for g in (0, 1, 4, 5))
        if bad:
            res.violations.append((path, "regression replay: configurations disagree or an executor died: " +
                                   ", ".join(f"{cfgx_desc(i)}:rc={rc}" for i, (rc, _) in enumerate(outs_r) if rc != 0)))
    batches = 16 if tier == "quick" else 128
    per = 1500 if tier == "quick" else 6000
    size = 120
    cmds = []
    for b in range(batches):
        for i in range(16):
            cmds.append([exes[i], "--seed", str(seed * 1000 + b), "--cases", str(per), "--size", str(size)])
    results = run_parallel(cmds, timeout=6 * 3600)
    evaluations = 0
    nontrivial = 0
    samples = []
    disagreements = []

    def emit_case(b, idx):
        path = os.path.join(outdir, f"C16_seed{seed * 1000 + b}_case{idx}.txt")
        subprocess.run([exes[0], "--seed", str(seed * 1000 + b), "--cases", str(idx + 1), "--size", str(size),
                        "--emit", path, "--emit-index", str(idx)], capture_output=True)
        return path

    for b in range(batches):
        outs = results[b * 16:(b + 1) * 16]
        per_cfg = []
        for i, (c, rc, out, err) in enumerate(outs):
            lines = {}
            last_begin = None
            for l in out.splitlines():
                t = l.split()
                if t and t[0] == "begin":
                    last_begin = int(t[1])
                elif t and t[0] == "case":
                    lines[int(t[1])] = t
            if rc != 0:
                if rc == "timeout":
                    res.inconclusive.append(f"executor {cfgx_desc(i)} hit the wall-clock budget")
                else:
                    # abort / crash: attribute to the case announced last
                    path = emit_case(b, last_begin if last_begin is not None else 0)
                    disagreements.append((path, i, None, f"executor {cfgx_desc(i)} died (rc={rc}): {err.strip()[-300:]}"))
            per_cfg.append(lines)
        ref = per_cfg[0]
        for idx in sorted(ref.keys()):
            evaluations += 1
            flags = ""
            for i in range(16):
                t = per_cfg[i].get(idx)
                if t is None:
                    continue
                if i & 2:
                    flags = t[6]
                if t[4] != ref[idx][4]:
                    disagreements.append((emit_case(b, idx), 0, i, f"results differ between {cfgx_desc(0)} and {cfgx_desc(i)}"))
                    break
            sref = per_cfg[2].get(idx)
            for i in range(16):
                t = per_cfg[i].get(idx)
                if t is None or not (i & 2) or sref is None:
                    continue
                if t[5] != sref[5]:
                    disagreements.append((emit_case(b, idx), 2, i, f"statistics differ between {cfgx_desc(2)} and {cfgx_desc(i)}"))
                    break
                # reported memory use: node sizes depend on the assertion setting (debug fields of the
                # optimistic lock), so it is compared within each assertion group only
                g = 2 | (i & 5)   # same SIMD level and assertion setting, stats on, EMPTY spin
                mref = per_cfg[g].get(idx)
                if mref is not None and t[7] != mref[7]:
                    disagreements.append((emit_case(b, idx), g, i,
                                          f"reported memory use differs between {cfgx_desc(g)} and {cfgx_desc(i)}"))
                    break
            if flags and (flags[0] == "1" or flags[1] == "1"):
                nontrivial += 1
            if len(samples) < 3 and idx < 2:
                samples.append({"seed": seed * 1000 + b, "case": idx, "line": " ".join(ref[idx])})
    # confirm + shrink each disagreement (first few)
    seen = set()
    for path, i, j, msg in disagreements[:4]:
        if path in seen:
            continue
        seen.add(path)

        def differs(p):
            outs_ = []
            for k in ([i] if j is None else [i, j]):
                q = subprocess.run([exes[k], "--replay", p], capture_output=True, text=True, timeout=600)
                if q.returncode != 0:
                    return True
                t_ = q.stdout.split()
                outs_.append([t_[4], t_[5], t_[7]])
            if j is None:
                return False
            if outs_[0][0] != outs_[1][0]:
                return True
            if (i & 2) and (j & 2):
                if outs_[0][1] != outs_[1][1]:
                    return True
                if (i & 5) == (j & 5) and outs_[0][2] != outs_[1][2]:
                    return True
            return False

        if not all(differs(path) for _ in range(3)):
            res.inconclusive.append(f"disagreement did not reproduce from {path}: {msg}")
            continue
        # delta debugging over operation lines
        with open(path) as f:
            lines = f.read().splitlines()
        head, ops = lines[:1], lines[1:]
        chunk = max(len(ops) // 2, 1)
        tmp = path + ".cand"
        while True:
            removed = False
            k = 0
            while k < len(ops):
                cand = ops[:k] + ops[k + chunk:]
                with open(tmp, "w") as f:
                    f.write("\n".join(head + cand) + "\n")
                if cand and differs(tmp):
                    ops = cand
                    removed = True
                else:
                    k += chunk
            if chunk == 1 and not removed:
                break
            if not removed:
                chunk = max(chunk // 2, 1)
        os.makedirs(faildir, exist_ok=True)
        dst = os.path.join(faildir, os.path.basename(path))
        with open(dst, "w") as f:
            f.write(f"# property C16 violated: {msg}\n# replay with the two executors named above (check.py C16 --replay)\n" +
                    "\n".join(head + ops) + "\n")
        res.violations.append((dst, msg))
    cov = {
        "evaluations": int(evaluations),
        "distinct_nontrivial": int(nontrivial),
        "rule": C16_RULE,
        "samples": samples or ["(no sample)"],
        "configurations": [cfgx_desc(i) for i in range(16)],
        "executions": int(evaluations) * 16,
        "disagreements_found": len(disagreements),
        "regression_replays": nrep,
        "inconclusive": res.inconclusive,
        "exhaustive": False,
    }
    write_evidence(pid, tier, seed, "exploration", cov, time.time() - t0, len(res.violations),
                   ["only configurations this x86-64 sandbox can build and run (no NEON, no MSVC)",
                    "the spin-wait variant only executes under contention; sequential histories compile both variants "
                    "but execute neither spin body", "byte-string keys of at most 8 bytes (the property's quantifier)"])
    return finish(pid, res)


C13_RULE = ("case = one run: 2-8 free-running plain threads issue seeded random mixes of get / insert / remove / empty / "
            "scan_from on one mutex_db over a small key space (4-63 keys with shared prefixes), with a seeded "
            "perturbation plan (yields, 1-50 us sleeps); every get hit is held for a generated number of re-reads; "
            "oracle (timing independent): per-key linearizability of the stamped history incl. a final read of "
            "every key, hit <=> owns_lock(), held bytes never change, no operation called after a hit returned "
            "completes before the hit is released, progress watchdog (a leaked lock stops every thread), scans "
            "under the lock stay ordered; crashes / sanitizer reports (ASan+UBSan; TSan in the thorough tier) "
            "count as violations (a ThreadSanitizer build runs a share of the runs in both tiers); non-trivial = operations of >= 2 threads on the same key overlapped and a held "
            "hit overlapped a writer's call; distinct by run configuration")


def check_c13(pid, tier, seed):
    t0 = time.time()
    exe = build("mx")
    res = Result()
    outdir = os.path.join(WORK, "run", pid)
    shutil.rmtree(outdir, ignore_errors=True)
    os.makedirs(outdir)
    faildir = os.path.join(FOUND, pid, "found")
    nrep = 0
    for path in sorted(glob.glob(os.path.join(VERIF, "replays", pid, "*.txt"))):
        nrep += 1
        rc, out = replay_once(exe, [], path, timeout=1800)
        if rc != 0:
            res.violations.append((path, out[-300:]))
    runs = 1500 if tier == "quick" else 200000
    cmds = [[exe, "--seed", str(seed * 1000 + i), "--runs", str(runs), "--out", os.path.join(outdir, f"stats{i}.json"),
             "--fail-dir", outdir] for i in range(NCPU)]
    tsan = build("mx_tsan")   # ThreadSanitizer build: an operation that skips the mutex races on tree memory
    cmds += [[tsan, "--seed", str(seed * 1000 + 100 + i), "--runs", "400" if tier == "quick" else "6000", "--out",
              os.path.join(outdir, f"stats_t{i}.json"), "--fail-dir", outdir] for i in range(4)]
    env = dict(os.environ, TSAN_OPTIONS="halt_on_error=1 exitcode=66")
    for c, rc, out, err in run_parallel(cmds, timeout=6 * 3600, env=env):
        if rc == 0:
            continue
        if rc == 1 and "FAILURE " in out:
            line = [l for l in out.splitlines() if l.startswith("FAILURE ")][0]
            path = line.split()[1]
            msg = line.split("::", 1)[1].strip() if "::" in line else ""
            # the schedule is the OS's: the replay re-runs the configuration up to 200 times
            rc2, out2 = replay_once(c[0], [], path, timeout=3600)
            os.makedirs(faildir, exist_ok=True)
            dst = os.path.join(faildir, os.path.basename(path))
            shutil.copy(path, dst)
            if rc2 != 0:
                res.violations.append((dst, msg))
            else:
                res.inconclusive.append(f"oracle failure did not recur in 200 re-runs of its configuration: {dst} ({msg})")
        elif rc == "timeout":
            res.inconclusive.append("worker hit the wall-clock budget")
        else:
            begins = [l for l in out.splitlines() if l.startswith("begin ")]
            idx = begins[-1].split()[1] if begins else "0"
            os.makedirs(faildir, exist_ok=True)
            dst = os.path.join(faildir, f"C13_seed{c[2]}_run{idx}_crash.txt")
            what = "ThreadSanitizer report (data race: an operation skipped the index lock)" if rc == 66 else \
                   f"crash / sanitizer report (rc={rc})"
            with open(dst, "w") as f:
                f.write(f"# property C13 violated: {what}\n# {err.strip()[-1200:]}\n# harness: {os.path.basename(c[0])}\n"
                        f"regen {c[2]} {idx}\n")
            res.violations.append((dst, what + ": " + err.strip()[-200:]))
    files = [os.path.join(outdir, f"stats{i}.json") for i in range(NCPU)] + \
            [os.path.join(outdir, f"stats_t{i}.json") for i in range(4)]
    counters, distinct, samples = merge_stats(files)
    cov = {
        "evaluations": int(counters.get("runs", 0)),
        "distinct_nontrivial": int(distinct),
        "rule": C13_RULE,
        "samples": samples[:3] if samples else ["(no sample)"],
        "operations": counters.get("operations", 0),
        "held_hits": counters.get("held_hits", 0),
        "runs_by_thread_count": {k[13:]: v for k, v in counters.items() if k.startswith("runs_threads_")},
        "linearizability_search_budget_exceeded": counters.get("runs_with_linearizability_search_budget_exceeded", 0),
        "tsan_build_used": True,
        "regression_replays": nrep,
        "inconclusive": res.inconclusive,
        "exhaustive": False,
    }
    write_evidence(pid, tier, seed, "exploration", cov, time.time() - t0, len(res.violations),
                   ["the harness does not own this schedule (std::mutex acquisition is not a scheduling point): coverage of "
                    "interleavings is best effort, the oracle is timing independent",
                    "a bug that needs one exact interleaving may be missed; runs are not bit-reproducible, the replay "
                    "re-runs the failing configuration many times"])
    return finish(pid, res)


CHECKS = {
    "C13": check_c13,
    "C16": check_c16,
    "C17": check_c17,
    "C08": check_seq,
    "C03": check_olc,
    "C04": check_olc,
    "C09": check_olc,
    "C14": check_olc,
    "C05": check_qsbr,
    "C06": check_qsbr,
    "C07": check_c07,
    "C11": check_enc,
    "C12": check_enc,
    "C15": check_enc,
    "C01": check_seq,
    "C02": check_seq,
    "C10": check_seq,
}

REPLAY = {
    "C13": ("mx", lambda pid: []),
    "C17": ("qp_dbg", lambda pid: []),
    "C08": ("seq", lambda pid: ["--prop", pid]),
    "C03": ("olc", lambda pid: ["--prop", pid]),
    "C04": ("olc", lambda pid: ["--prop", pid]),
    "C09": ("olc", lambda pid: ["--prop", pid]),
    "C14": ("olc", lambda pid: ["--prop", pid]),
    "C05": ("qsbr", lambda pid: ["--prop", pid]),
    "C06": ("qsbr", lambda pid: ["--prop", pid]),
    "C07": ("lock", lambda pid: ["--prop", pid]),
    "C11": ("enc_san", lambda pid: ["--prop", pid]),
    "C12": ("enc_san", lambda pid: ["--prop", pid]),
    "C15": ("enc_san", lambda pid: ["--prop", pid]),
    "C01": ("seq", lambda pid: ["--prop", pid]),
    "C02": ("seq", lambda pid: ["--prop", pid]),
    "C10": ("seq", lambda pid: ["--prop", pid]),
}


def main():
    ap = argparse.ArgumentParser()
    ap.add_argument("prop", nargs="?")
    ap.add_argument("--tier", default=os.environ.get("VERIF_TIER", "quick"))
    ap.add_argument("--seed", type=int, default=None)
    ap.add_argument("--replay")
    ap.add_argument("--build-all", action="store_true")
    a = ap.parse_args()
    os.makedirs(WORK, exist_ok=True)
    if a.build_all:
        for t in ["seq", "fuzz_seq", "enc_fast", "enc_san", "fuzz_enc", "lock", "qsbr", "qsbr_stats", "olc", "olc_nd", "qsbr_fault", "qp_dbg", "qp_ndbg", "mx", "mx_tsan"] + [f"cfgx_{i}" for i in range(16)]:
            build(t)
        return 0
    seed = a.seed if a.seed is not None else int(os.environ.get("VERIF_SEED", "1") or 1)
    if seed == 0:
        seed = 1
    if a.prop not in CHECKS:
        log(f"unknown property {a.prop}")
        return 2
    if a.replay and a.prop == "C16":
        outs = []
        for i in range(16):
            q = subprocess.run([build(f"cfgx_{i}"), "--replay", a.replay], capture_output=True, text=True)
            print(cfgx_desc(i), q.returncode, q.stdout.strip())
            t_ = q.stdout.split()
            outs.append((q.returncode, [t_[4], t_[5], t_[7], i & 5] if q.returncode == 0 else None))
        bad = any(rc != 0 for rc, _ in outs) or len({o[0] for rc, o in outs if o}) > 1 or \
            len({o[1] for rc, o in outs if o and o[1] != "-"}) > 1 or \
            any(len({o[2] for rc, o in outs if o and o[2] != "-" and o[3] == g}) > 1 for g in (0, 1, 4, 5))
        print(f"VIOLATION property=C16 replay={a.replay}" if bad else "OK property=C16 (replay agrees in all configurations)")
        return 1 if bad else 0
    if a.replay:
        tgt, argf = REPLAY[a.prop]
        with open(a.replay) as f:
            content = f.read()
            if "harness build olc_nd" in content:
                tgt = "olc_nd"
            if "# engine: seq" in content:
                tgt, argf = "seq", (lambda pid: ["--prop", pid])
            if "# engine: qsbr_fault" in content:
                tgt, argf = "qsbr_fault", (lambda pid: [])
        exe = build(tgt)
        args = argf(a.prop)
        with open(a.replay) as f:
            if "# replay-args:" in f.read(600):
                pass
        p = subprocess.run([exe] + args + ["--replay", a.replay])
        if p.returncode == 0:
            print(f"OK property={a.prop} (replay passes)")
            return 0
        print(f"VIOLATION property={a.prop} replay={a.replay}")
        return 1
    tier = a.tier if a.tier in ("quick", "thorough") else "quick"
    global CURRENT_TIER
    CURRENT_TIER = tier
    return CHECKS[a.prop](a.prop, tier, seed)


if __name__ == "__main__":
    sys.exit(main())
