#!/bin/sh
# setup_cmd: builds the harnesses from files on disk only (offline). Every
# check rebuilds by itself when /repo changes; this only warms the cache.
cd "$(dirname "$0")" || exit 1
exec python3 check.py --build-all
