#!/bin/sh
# Runs the repository's own test suite with the verification guard OFF
# (UNODB_DETAIL_VERIF_HOOKS undefined): same build as BASELINE.json.
set -e
if [ ! -f /repo/_build/build.ninja ]; then
  cmake -G Ninja -S /repo -B /repo/_build -DCMAKE_BUILD_TYPE=RelWithDebInfo -DCMAKE_CXX_FLAGS=-Wno-error
fi
cmake --build /repo/_build -j16
ctest --test-dir /repo/_build -j8 --timeout 900 --output-junit /tmp/verif_baseline_junit.xml
