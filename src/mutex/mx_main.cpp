// C13: mutex_db - operations from plain threads are atomic (linearizable); a
// successful get returns the value together with ownership of the index
// lock (the entry is pinned until the caller lets go), a miss returns without
// the lock.
//
// Free-running std::threads (the harness does not own this schedule: a
// std::mutex acquisition cannot be made a scheduling point without rewriting
// mutex_art.hpp); the ORACLE is timing independent, the coverage is best
// effort and steered by a seeded perturbation plan (yields / short sleeps).
//
//   mx --seed S --runs N --out stats.json --fail-dir D
//   mx --replay FILE      re-runs the recorded run configuration (several attempts)
#include "global.hpp"  // unodb: first

#include <unistd.h>

#include <atomic>
#include <chrono>
#include <condition_variable>
#include <mutex>
#include <iostream>
#include <map>
#include <thread>

#include "mutex_art.hpp"

#include "../common/model.hpp"
#include "../common/vcommon.hpp"

using namespace verif;

namespace {

const int EXIT_VIOLATED = 42;
using db_t = unodb::mutex_db<std::uint64_t, unodb::value_view>;

enum okind { O_GET, O_INS, O_REM, O_EMPTY, O_SCAN, O_STATS, O_CLEAR };
struct rec {
  okind k;
  std::uint64_t key;
  std::uint32_t vseed;
  bool res;
  std::string val;
  std::uint64_t call, ret, release;  // release: stamp taken just before a held hit is let go (0: nothing held)
};

struct run_cfg {
  std::uint64_t seed;
  unsigned threads, keys, ops;
};

std::string value_of(std::uint32_t vseed) { return make_value(vseed, 4 + vseed % 13); }

struct run_result {
  bool ok = true;
  std::string msg;
  bool nontrivial = false;
  std::uint64_t ops = 0, held_hits = 0;
  bool lin_inconclusive = false;
};

std::uint64_t lin_budget = 0;  // search steps left; 0 => give up (inconclusive)
bool lin_key(std::vector<const rec*> ops, bool present, std::string val) {
  if (ops.empty()) return true;
  if (lin_budget == 0) return true;  // budget exhausted: not a verdict (counted by the caller)
  --lin_budget;
  std::uint64_t minret = ~0ULL;
  for (auto* o : ops) minret = std::min(minret, o->ret);
  for (std::size_t i = 0; i < ops.size(); ++i) {
    const rec* o = ops[i];
    if (o->call > minret) continue;
    bool ok, np = present;
    std::string nv = val;
    if (o->k == O_CLEAR) {
      ok = true;
      np = false;
    } else if (o->k == O_GET) {
      ok = (o->res == present) && (!present || o->val == val);
    } else if (o->k == O_INS) {
      ok = (o->res == !present);
      if (o->res) {
        np = true;
        nv = value_of(o->vseed);
      }
    } else {
      ok = (o->res == present);
      if (o->res) np = false;
    }
    if (!ok) continue;
    auto rest = ops;
    rest.erase(rest.begin() + static_cast<long>(i));
    if (lin_key(rest, np, nv)) return true;
  }
  return false;
}

run_result do_run(const run_cfg& cfg) {
  run_result rr;
  db_t db;
  std::atomic<std::uint64_t> clock{1};
  std::atomic<bool> go{false};
  std::atomic<int> failed{0};
  std::string fail_msg[8];
  std::vector<std::vector<rec>> hist(cfg.threads);
  std::vector<std::uint64_t> universe;
  {
    vrng r(hash_combine(cfg.seed, 7));
    // small key space with shared prefixes so that the tree restructures
    const std::uint64_t base = r.next() & 0xffffffffffff0000ULL;
    for (unsigned i = 0; i < cfg.keys; ++i) universe.push_back(base | (r.below(4) << 8) | i);
  }
  std::atomic<std::uint64_t> progress{0};
  const bool allow_clear = (cfg.seed & 3) == 0;  // a quarter of the runs use clear()
  std::vector<std::thread> th;
  for (unsigned t = 0; t < cfg.threads; ++t) {
    th.emplace_back([&, t] {
      vrng r(hash_combine(cfg.seed, 1000 + t));
      auto& H = hist[t];
      H.reserve(cfg.ops);
      while (!go.load(std::memory_order_acquire)) std::this_thread::yield();
      for (unsigned i = 0; i < cfg.ops && failed.load(std::memory_order_relaxed) == 0; ++i) {
        rec o{};
        const unsigned w = static_cast<unsigned>(r.below(100));
        o.key = universe[r.below(universe.size())];
        o.k = w < 34 ? O_GET : w < 63 ? O_INS : w < 90 ? O_REM : w < 93 ? O_EMPTY : w < 96 ? O_SCAN : w < 99 ? O_STATS : O_CLEAR;
        if (o.k == O_CLEAR && !allow_clear) o.k = O_EMPTY;
        // perturbation plan (seeded): yield / short sleep before some operations
        const unsigned pz = static_cast<unsigned>(r.below(64));
        if (pz == 0) std::this_thread::sleep_for(std::chrono::microseconds(1 + r.below(50)));
        else if (pz < 6) std::this_thread::yield();
        switch (o.k) {
          case O_GET: {
            o.call = clock.fetch_add(1);
            auto res = db.get(o.key);
            o.ret = clock.fetch_add(1);
            o.res = res.first.has_value();
            if (o.res != res.second.owns_lock()) {
              fail_msg[t] = std::string("get ") + (o.res ? "found its key but does not own the index lock" : "missed but returned holding the index lock");
              failed.store(1);
            }
            if (o.res) {
              o.val.assign(reinterpret_cast<const char*>(res.first->data()), res.first->size());
              // hold the hit: the bytes must neither change nor disappear
              const unsigned rereads = static_cast<unsigned>(r.below(r.chance(1, 4) ? 40 : 4));
              for (unsigned j = 0; j < rereads; ++j) {
                if (j % 8 == 7) std::this_thread::yield();
                if (res.first->size() != o.val.size() || std::memcmp(res.first->data(), o.val.data(), o.val.size()) != 0) {
                  fail_msg[t] = "the value bytes of a held get result changed while the caller still owned the lock";
                  failed.store(1);
                  break;
                }
              }
              o.release = clock.fetch_add(1);
              // the lock handle is released at the end of this scope
            }
            break;
          }
          case O_INS: {
            o.vseed = static_cast<std::uint32_t>(hash_combine(cfg.seed, (static_cast<std::uint64_t>(t) << 32) | i) & 0xffffff);
            const std::string v = value_of(o.vseed);
            o.call = clock.fetch_add(1);
            o.res = db.insert(o.key, unodb::value_view{reinterpret_cast<const std::byte*>(v.data()), v.size()});
            o.ret = clock.fetch_add(1);
            break;
          }
          case O_REM:
            o.call = clock.fetch_add(1);
            o.res = db.remove(o.key);
            o.ret = clock.fetch_add(1);
            break;
          case O_EMPTY:
            o.call = clock.fetch_add(1);
            o.res = db.empty();
            o.ret = clock.fetch_add(1);
            break;
          case O_STATS: {
            // statistics getters take the lock too (TSan sees it if they do not)
            o.call = clock.fetch_add(1);
            // (each getter locks separately: their values are not a joint snapshot, nothing to compare)
            (void)db.get_node_counts();
            (void)db.get_current_memory_use();
            (void)db.get_growing_inode_counts();
            (void)db.get_shrinking_inode_counts();
            (void)db.get_key_prefix_splits();
            o.ret = clock.fetch_add(1);
            break;
          }
          case O_CLEAR:
            // clear() removes every key: recorded as a barrier for the per-key histories
            o.call = clock.fetch_add(1);
            db.clear();
            o.ret = clock.fetch_add(1);
            break;
          case O_SCAN: {
            std::uint64_t prev = 0;
            bool first = true, bad = false;
            o.call = clock.fetch_add(1);
            db.scan_from(o.key, [&](const auto& vis) {
              const auto kk = vis.get_key();
              std::uint64_t k = 0;
              for (std::size_t b = 0; b < kk.size() && b < 8; ++b) k = (k << 8) | static_cast<unsigned char>(kk[b]);
              if (!first && k <= prev) bad = true;
              first = false;
              prev = k;
              (void)vis.get_value().size();
              return false;
            }, true);
            o.ret = clock.fetch_add(1);
            if (bad) {
              fail_msg[t] = "a scan holding the index lock delivered keys out of order (the index changed under it)";
              failed.store(1);
            }
            break;
          }
        }
        H.push_back(std::move(o));
        progress.fetch_add(1, std::memory_order_relaxed);
      }
    });
  }
  go.store(true, std::memory_order_release);
  // progress watchdog: a leaked lock stops every thread, including the one that leaked it
  std::mutex wd_m;
  std::condition_variable wd_cv;
  bool wd_stop = false;
  std::thread watchdog([&] {
    std::uint64_t last = 0;
    unsigned idle = 0;
    std::unique_lock lk(wd_m);
    while (!wd_stop) {
      wd_cv.wait_for(lk, std::chrono::milliseconds(100));
      if (wd_stop) break;
      const auto p = progress.load();
      if (p == last) {
        if (++idle > 1200) {  // 120 s without a single completed operation in any thread
          std::printf("FAIL C13 no operation completed in any thread for 120 s: an operation returned (or threw) holding the index lock\n");
          std::fflush(nullptr);
          _exit(EXIT_VIOLATED);
        }
      } else {
        idle = 0;
        last = p;
      }
    }
  });
  for (auto& t : th) t.join();
  {
    std::unique_lock lk(wd_m);
    wd_stop = true;
    wd_cv.notify_all();
  }
  watchdog.join();
  for (unsigned t = 0; t < cfg.threads; ++t)
    if (!fail_msg[t].empty()) {
      rr.ok = false;
      rr.msg = fail_msg[t];
      return rr;
    }
  // final state
  std::vector<rec> finals;
  const std::uint64_t after = clock.load() + 10;
  for (auto k : universe) {
    rec g{};
    g.k = O_GET;
    g.key = k;
    g.call = after;
    g.ret = after + 1;
    auto res = db.get(k);
    g.res = res.first.has_value();
    if (g.res) g.val.assign(reinterpret_cast<const char*>(res.first->data()), res.first->size());
    finals.push_back(g);
  }
  // (1) per-key linearizability
  std::map<std::uint64_t, std::vector<const rec*>> byk;
  for (auto& H : hist)
    for (auto& o : H) {
      ++rr.ops;
      if (o.k == O_GET || o.k == O_INS || o.k == O_REM) byk[o.key].push_back(&o);
      if (o.release) ++rr.held_hits;
    }
  // clear(): an operation on every key of the universe (leaves it absent, no result to check)
  for (auto& H : hist)
    for (auto& o : H)
      if (o.k == O_CLEAR)
        for (auto k : universe) byk[k].push_back(&o);
  for (auto& g : finals) byk[g.key].push_back(&g);
  bool overlap_same_key = false;
  for (auto& [k, ops_unsorted] : byk) {
    // candidates are tried in order of their return stamps: under a mutex the
    // linearization order is close to it, so the search rarely backtracks
    auto ops = ops_unsorted;
    std::sort(ops.begin(), ops.end(), [](const rec* a, const rec* b) { return a->ret < b->ret; });
    lin_budget = 2000000;
    const bool lin = lin_key(ops, false, "");
    if (lin_budget == 0) {
      rr.lin_inconclusive = true;
      continue;
    }
    if (!lin) {
      rr.ok = false;
      rr.msg = "results on key " + to_hex(u64_to_be(k)) + " are not linearizable (" + std::to_string(ops.size()) + " operations)";
      return rr;
    }
    for (auto* a : ops)
      for (auto* b : ops)
        if (a < b && !(a->ret < b->call) && !(b->ret < a->call)) overlap_same_key = true;
  }
  // (2) pinning: no operation called after a hit returned may return before the hit is released
  bool hold_overlapped_writer = false;
  for (auto& H : hist)
    for (auto& g : H) {
      if (!g.release) continue;
      for (auto& H2 : hist)
        for (auto& x : H2) {
          if (&x == &g) continue;
          if (x.call > g.ret && x.ret < g.release) {
            rr.ok = false;
            rr.msg = "an operation ran to completion while another thread held a successful get result (index lock not held)";
            return rr;
          }
          if ((x.k == O_INS || x.k == O_REM) && x.call < g.release && x.ret > g.ret) hold_overlapped_writer = true;
        }
    }
  rr.nontrivial = overlap_same_key && hold_overlapped_writer;
  return rr;
}

run_cfg gen_cfg(std::uint64_t seed, std::uint64_t i) {
  vrng r(hash_combine(seed, i));
  run_cfg c;
  c.seed = hash_combine(seed, i * 31 + 5);
  c.threads = 2 + static_cast<unsigned>(r.below(7));
  c.keys = 4 + static_cast<unsigned>(r.below(60));
  c.ops = 40 + static_cast<unsigned>(r.below(160));
  return c;
}

}  // namespace

int main(int argc, char** argv) {
  args a(argc, argv);
  const std::string out = a.str("out", ""), fail_dir = a.str("fail-dir", ".");
  if (a.has("replay")) {
    run_cfg c{};
    std::istringstream is(read_file(a.str("replay")));
    std::string l;
    while (std::getline(is, l)) {
      auto t = split_ws(l);
      if (t.size() >= 3 && t[0] == "regen") {
        c = gen_cfg(std::strtoull(t[1].c_str(), nullptr, 0), std::strtoull(t[2].c_str(), nullptr, 0));
      } else if (t.size() >= 5 && t[0] == "run") {
        c.seed = std::strtoull(t[1].c_str(), nullptr, 0);
        c.threads = static_cast<unsigned>(std::stoul(t[2]));
        c.keys = static_cast<unsigned>(std::stoul(t[3]));
        c.ops = static_cast<unsigned>(std::stoul(t[4]));
      }
    }
    if (c.threads == 0) return 2;
    // the schedule is the OS's: several attempts with the same configuration
    for (int attempt = 0; attempt < 200; ++attempt) {
      auto r = do_run(c);
      if (!r.ok) {
        std::cout << "FAIL C13 " << r.msg << " (attempt " << attempt << ")\n";
        return EXIT_VIOLATED;
      }
    }
    std::cout << "PASS (200 attempts)\n";
    return 0;
  }
  const std::uint64_t seed = a.u64("seed", 1), runs = a.u64("runs", 100);
  stats st;
  for (std::uint64_t i = 0; i < runs; ++i) {
    const run_cfg c = gen_cfg(seed, i);
    std::printf("begin %llu\n", static_cast<unsigned long long>(i));  // lets the driver attribute a crash
    std::fflush(stdout);
    auto r = do_run(c);
    st.inc("runs");
    st.inc("operations", r.ops);
    st.inc("held_hits", r.held_hits);
    if (r.lin_inconclusive) st.inc("runs_with_linearizability_search_budget_exceeded");
    st.inc("runs_threads_" + std::to_string(c.threads));
    if (r.nontrivial) st.add_nontrivial(hash_combine(c.seed, c.threads * 1000 + c.ops));
    if (i < 3) st.add_sample("run seed=" + std::to_string(c.seed) + " threads=" + std::to_string(c.threads) + " keys=" + std::to_string(c.keys) +
                             " ops/thread=" + std::to_string(c.ops));
    if (!r.ok) {
      const std::string path = fail_dir + "/C13_seed" + std::to_string(seed) + "_run" + std::to_string(i) + ".txt";
      char buf[200];
      std::snprintf(buf, sizeof buf, "run 0x%llx %u %u %u\n", static_cast<unsigned long long>(c.seed), c.threads, c.keys, c.ops);
      write_file(path, "# property C13 violated: " + r.msg + "\n# free-running threads: the replay re-runs this configuration up to 200 times\n" + buf);
      if (!out.empty()) st.write(out);
      std::cout << "FAILURE " << path << " :: " << r.msg << "\n";
      return 1;
    }
  }
  if (!out.empty()) st.write(out);
  return 0;
}
