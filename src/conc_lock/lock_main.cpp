// C07: optimistic lock - validated reads are consistent, writers exclusive,
// obsolete is final. Scripts of 2-3 threads over ONE optimistic_lock guarding
// three in_critical_section<uint64_t> words run under the deterministic
// scheduler; the oracle is a set of invariants over the stamped history.
#include "global.hpp"  // unodb: first

#include <optional>

#include "optimistic_lock.hpp"

#include "../sched/sched_driver.hpp"

using namespace vsched;
using verif::vrng;

namespace {

struct shared_state {
  unodb::optimistic_lock lock;
  unodb::in_critical_section<std::uint64_t> w[3];
};

enum ekind { E_OPEN, E_READ, E_CHECK, E_UNLOCK, E_UPGRADE, E_WUNLOCK, E_OBSOLETE, E_WRITE };
struct hevent {
  ekind k;
  std::uint64_t s0, s1;
  bool ok;
  std::uint64_t value;
  int word;
  int txn;
};

struct lock_harness final : harness {
  std::string default_prop() override { return "C07"; }
  std::string livelock_property() override { return "none"; }  // C07 is a safety property

  void setup_process() override {
    auto& S = scheduler::get();
    S.start_pool(3, [](std::function<void()> body) { new std::thread(std::move(body)); });
    unodb::detail::verif::sched_hook.store(+[](unsigned k, const void* a) noexcept { scheduler::get().point(k, a); });
  }

  bool is_op_line(const std::string& l) override { return l.size() > 1 && l[0] == 't' && l[1] >= '0' && l[1] <= '9'; }

  std::string gen_program(std::uint64_t seed, std::uint64_t index, verif::stats* st) override {
    vrng r(verif::hash_combine(seed, index));
    const unsigned T = r.chance(2, 3) ? 2 : 3;
    std::string p = "threads " + std::to_string(T) + "\n";
    bool have_writer = false;
    for (unsigned t = 0; t < T; ++t) {
      const unsigned ntx = 1 + static_cast<unsigned>(r.below(T == 2 ? 3 : 2));
      int pending_destroy = 0;
      for (unsigned x = 0; x < ntx; ++x) {
        std::string l = "t" + std::to_string(t) + " R";
        const bool writer = r.chance(1, 2) || (t == T - 1 && x == ntx - 1 && !have_writer);
        const unsigned nreads = static_cast<unsigned>(r.below(4));
        for (unsigned i = 0; i < nreads; ++i) {
          l += " r" + std::to_string(r.below(3));
          if (r.chance(1, 4)) l += " C";
        }
        if (writer) {
          have_writer = true;
          l += " W w";
          // explicit unlock()/unlock_and_obsolete(), with the guard object destroyed at once ("X"/"O") or kept
          // alive ("Xk"/"Ok": destroyed by a later "D" line or at the end of the script), or implicit (RAII)
          const bool keep = r.chance(1, 2);
          l += r.chance(1, 6) ? (keep ? " Ok" : " O") : (r.chance(3, 4) ? (keep ? " Xk" : " X") : "");
          if (keep && r.chance(1, 2)) pending_destroy = 1 + static_cast<int>(r.below(2));
        } else {
          const unsigned e = static_cast<unsigned>(r.below(4));
          if (e == 0) l += " U";
          else if (e == 1) l += " C";
          else if (e == 2) l += " C U";
        }
        p += l + "\n";
        if (pending_destroy > 0 && --pending_destroy == 0) p += "t" + std::to_string(t) + " D\n";
      }
      if (pending_destroy > 0) p += "t" + std::to_string(t) + " D\n";
    }
    if (st) st->inc("programs_threads_" + std::to_string(T));
    return p;
  }

  exec_result execute(const std::string& program, strategy& strat, verif::stats* st) override {
    auto& S = scheduler::get();
    // parse
    unsigned T = 2;
    std::vector<std::vector<std::vector<std::string>>> txns(MAX_THREADS);
    {
      std::istringstream is(program);
      std::string line;
      while (std::getline(is, line)) {
        auto t = verif::split_ws(line);
        if (t.empty()) continue;
        if (t[0] == "threads" && t.size() > 1) {
          T = static_cast<unsigned>(std::stoul(t[1]));
        } else if (is_op_line(t[0])) {
          const unsigned th = static_cast<unsigned>(t[0][1] - '0');
          if (th < 3) txns[th].emplace_back(t.begin() + 1, t.end());
        }
      }
      if (T < 1) T = 1;
      if (T > 3) T = 3;
    }
    auto st8 = std::make_unique<shared_state>();
    shared_state& sh = *st8;
    for (auto& x : sh.w) x.store(0);
    std::vector<std::vector<hevent>> hist(T);
    std::atomic<std::uint64_t> stamp_counter{0};
    (void)stamp_counter;
    std::uint64_t gen_counter = 0;
    std::vector<std::function<void()>> bodies;
    for (unsigned t = 0; t < T; ++t) {
      bodies.push_back([&, t] {
        auto& H = hist[t];
        int txn_no = 0;
        std::vector<std::unique_ptr<std::optional<unodb::optimistic_lock::write_guard>>> kept;
        for (auto& toks : txns[t]) {
          ++txn_no;
          unodb::optimistic_lock::read_critical_section rcs;
          using guard_box = std::optional<unodb::optimistic_lock::write_guard>;
          auto wgp = std::make_unique<guard_box>();
          guard_box& wg = *wgp;
          enum { NONE, READ, WRITE, DEAD } state = NONE;
          for (auto& tok : toks) {
            if (tok == "R") {
              if (state != NONE) continue;
              const auto s0 = S.stamp();
              rcs = sh.lock.try_read_lock();
              const bool ok = !rcs.must_restart();
              H.push_back({E_OPEN, s0, S.stamp(), ok, 0, -1, txn_no});
              state = ok ? READ : DEAD;
            } else if (tok[0] == 'r') {
              if (state != READ) continue;
              const int i = tok.size() > 1 ? (tok[1] - '0') % 3 : 0;
              const auto s0 = S.stamp();
              const std::uint64_t v = sh.w[i].load();
              H.push_back({E_READ, s0, S.stamp(), true, v, i, txn_no});
            } else if (tok == "C") {
              if (state != READ) continue;
              const auto s0 = S.stamp();
              const bool ok = rcs.check();
              H.push_back({E_CHECK, s0, S.stamp(), ok, 0, -1, txn_no});
              if (!ok) state = DEAD;
            } else if (tok == "U") {
              if (state != READ) continue;
              const auto s0 = S.stamp();
              const bool ok = rcs.try_read_unlock();
              H.push_back({E_UNLOCK, s0, S.stamp(), ok, 0, -1, txn_no});
              state = NONE;
            } else if (tok == "W") {
              if (state != READ) continue;
              const auto s0 = S.stamp();
              wg.emplace(std::move(rcs));
              const bool ok = !wg->must_restart();
              H.push_back({E_UPGRADE, s0, S.stamp(), ok, 0, -1, txn_no});
              if (ok) {
                state = WRITE;
              } else {
                wg.reset();
                state = DEAD;
              }
            } else if (tok == "w") {
              if (state != WRITE) continue;
              const std::uint64_t g = ++gen_counter * 16 + t;
              for (int i = 0; i < 3; ++i) {
                const auto s0 = S.stamp();
                sh.w[i].store(g);
                H.push_back({E_WRITE, s0, S.stamp(), true, g, i, txn_no});
              }
            } else if (tok == "X" || tok == "Xk") {
              if (state != WRITE) continue;
              const auto s0 = S.stamp();
              wg->unlock();
              H.push_back({E_WUNLOCK, s0, S.stamp(), true, 0, -1, txn_no});
              // "Xk": the guard object stays alive after its explicit unlock() (it is destroyed by a
              // later D operation or at the end of the script): its destructor must then do nothing
              if (tok == "Xk") kept.push_back(std::move(wgp));
              else wg.reset();
              state = NONE;
              if (tok == "Xk") break;  // the rest of this transaction has no guard holder any more
            } else if (tok == "O" || tok == "Ok") {
              if (state != WRITE) continue;
              const auto s0 = S.stamp();
              wg->unlock_and_obsolete();
              H.push_back({E_OBSOLETE, s0, S.stamp(), true, 0, -1, txn_no});
              if (tok == "Ok") kept.push_back(std::move(wgp));
              else wg.reset();
              state = NONE;
              if (tok == "Ok") break;
            } else if (tok == "D") {
              // destroy the oldest guard object kept alive after its explicit unlock
              if (!kept.empty()) kept.erase(kept.begin());
            }
          }
          if (!wgp) continue;  // holder was handed to `kept`
          // implicit release at scope end (RAII)
          if (state == WRITE) {
            const auto s0 = S.stamp();
            wg.reset();  // destructor unlocks
            H.push_back({E_WUNLOCK, s0, S.stamp(), true, 0, -1, txn_no});
          } else if (state == READ) {
            // debug builds: the destructor balances the read lock count; the
            // outcome is not observable, so nothing is recorded
          }
        }
      });
    }
    S.run(bodies, strat);

    // ---- oracle -----------------------------------------------------------------
    exec_result res;
    res.prop = "C07";
    auto fail = [&](const std::string& m) {
      if (res.ok) {
        res.ok = false;
        res.msg = m;
      }
    };
    struct wint {
      unsigned t;
      std::uint64_t a0, a1, x0, x1;
      bool obsolete;
      bool closed;
    };
    std::vector<wint> W;
    struct obs {
      std::uint64_t z0, z1;
    };
    std::vector<obs> O;
    for (unsigned t = 0; t < T; ++t) {
      for (std::size_t i = 0; i < hist[t].size(); ++i) {
        const auto& e = hist[t][i];
        if (e.k == E_UPGRADE && e.ok) {
          wint w{t, e.s0, e.s1, ~0ULL, ~0ULL, false, false};
          for (std::size_t j = i + 1; j < hist[t].size(); ++j) {
            const auto& f = hist[t][j];
            if (f.k == E_WUNLOCK || f.k == E_OBSOLETE) {
              w.x0 = f.s0;
              w.x1 = f.s1;
              w.obsolete = f.k == E_OBSOLETE;
              w.closed = true;
              break;
            }
          }
          W.push_back(w);
        }
        if (e.k == E_OBSOLETE) O.push_back({e.s0, e.s1});
      }
    }
    // (i) writers exclusive
    for (std::size_t i = 0; i < W.size(); ++i)
      for (std::size_t j = i + 1; j < W.size(); ++j) {
        if (W[i].t == W[j].t) continue;
        if (W[i].a1 <= W[j].x0 && W[j].a1 <= W[i].x0)
          fail("two write guards active at the same time (threads " + std::to_string(W[i].t) + " and " + std::to_string(W[j].t) + ")");
      }
    // per-section checks
    bool contention = false;
    unsigned unjustified = 0;
    for (unsigned t = 0; t < T; ++t) {
      const auto& H = hist[t];
      for (std::size_t i = 0; i < H.size(); ++i) {
        if (H[i].k != E_OPEN) continue;
        const auto& op = H[i];
        // (iv) open after obsolete must fail
        for (auto& z : O)
          if (op.s0 >= z.z1 && op.ok) fail("a read section was opened on an obsolete lock");
        if (!op.ok) {
          // The converse (failure only if obsolete) is not part of C07's
          // statement; it is only counted.
          bool justified = false;
          for (auto& z : O)
            if (z.z0 <= op.s1) justified = true;
          if (!justified) ++unjustified;
          continue;
        }
        std::vector<std::uint64_t> vals;
        for (std::size_t j = i + 1; j < H.size() && H[j].txn == op.txn; ++j) {
          const auto& e = H[j];
          if (e.k == E_READ) vals.push_back(e.value);
          const bool validation = (e.k == E_CHECK || e.k == E_UNLOCK || e.k == E_UPGRADE);
          if (!validation) continue;
          if (e.ok) {
            // (ii) no write-locked period overlapped [open, validation]
            for (auto& w : W) {
              if (w.t == t) continue;
              if (w.a1 <= e.s0 && op.s1 <= w.x0)
                fail(std::string(e.k == E_UPGRADE ? "an upgrade" : "a check/unlock") +
                     " succeeded although a write guard of thread " + std::to_string(w.t) +
                     " was active since the section was opened");
            }
            // snapshot
            for (auto v : vals)
              if (v != vals.front()) fail("a validated read section observed a torn state (words differ)");
            // (iii) upgrade: no writer acquired in between
            if (e.k == E_UPGRADE)
              for (auto& w : W)
                if (w.t != t && op.s1 <= w.a0 && w.a1 <= e.s0)
                  fail("an upgrade succeeded although another writer acquired the lock since the section was opened");
            // (iv)
            for (auto& z : O)
              if (e.s0 >= z.z1) fail(std::string(e.k == E_UPGRADE ? "an upgrade" : "a check") + " succeeded on an obsolete lock");
          } else {
            bool justified = false;
            for (auto& w : W)
              if (w.t != t && w.a0 <= e.s1 && (!w.closed || w.x1 >= op.s0)) justified = true;
            for (auto& z : O)
              if (z.z0 <= e.s1) justified = true;
            if (!justified) ++unjustified;  // diagnostic only (not claimed by C07)
          }
          if (e.k != E_CHECK || !e.ok) break;  // section over
        }
      }
      // contention: another thread's lock event within a write period
      for (auto& w : W) {
        if (w.t == t) continue;
        for (auto& e : H)
          if (e.k != E_READ && e.k != E_WRITE && e.s1 >= w.a1 && e.s0 <= w.x0) contention = true;
      }
    }
    res.nontrivial = contention;
    if (st) {
      if (contention) st->inc("executions_with_contention_inside_write_period");
      if (!O.empty()) st->inc("executions_with_obsolete");
      if (unjustified) st->inc("diagnostic_unjustified_validation_failures", unjustified);
    }
    return res;
  }
};

}  // namespace

int main(int argc, char** argv) {
  lock_harness H;
  return sched_main(argc, argv, H);
}
