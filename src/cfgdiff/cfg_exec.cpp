// C16: executor replayed by 16 build configurations ({AVX2,SSE4.1} x
// {stats on,off} x {assertions,NDEBUG} x {PAUSE,EMPTY spin}). It generates
// (or reads) the same histories in every configuration - generation does not
// depend on the build - executes them WITHOUT any model oracle and prints, per
// history, a hash of the result trace (return values, get bytes, scan output)
// and, in statistics builds, a hash of all counters after every operation.
// check.py compares the lines across configurations; assertion-enabled
// executors must exit 0.
//
//   cfg_exec --seed S --cases N --size Z        -> lines "case <i> <cfg> <ops> <result hash> <stats hash|-> <flags>"
//   cfg_exec --replay FILE                      -> one such line
#include "global.hpp"  // unodb: first

#include <sys/time.h>

#include <iostream>

#include "art.hpp"
#include "mutex_art.hpp"
#include "olc_art.hpp"
#include "qsbr.hpp"

#include "../seq/seq_case.hpp"
#include "../seq/seq_gen.hpp"

using namespace verif;
using namespace verif::seq;

namespace {

struct trace {
  std::uint64_t results = 0x1234;
  std::uint64_t statsh = 0x5678;
  std::uint64_t memh = 0x9abc;  // memory use: sizeof(node) depends on the assertion setting (debug lock fields)
  bool reached_i16_i48 = false;
  bool olc_scan_then_remove = false;
  void add(std::uint64_t x) { results = hash_combine(results, x); }
  void adds(std::uint64_t x) { statsh = hash_combine(statsh, x); }
};

template <class Db, bool U64, bool OLC, bool MUTEX>
void exec_case(const scase& c, trace& tr) {
  Db db;
  std::set<std::string> keys;  // for the documented byte-string precondition only
  auto mk_key = [](const std::string& b) {
    if constexpr (U64) {
      return be_to_u64(b);
    } else {
      return unodb::key_view{reinterpret_cast<const std::byte*>(b.data()), b.size()};
    }
  };
  auto violates = [&](const std::string& b) {
    if constexpr (U64) {
      return false;
    } else {
      if (b.empty()) return true;
      auto it = keys.lower_bound(b);
      if (it != keys.end() && *it != b && it->compare(0, b.size(), b) == 0) return true;
      for (std::size_t l = 1; l < b.size(); ++l)
        if (keys.count(b.substr(0, l))) return true;
      return false;
    }
  };
  bool scanned = false;
  for (auto& o : c.ops) {
    switch (o.kind) {
      case INS: {
        if (violates(o.key)) break;
        const std::string v = make_value(o.vseed, o.vlen);
        const bool r = db.insert(mk_key(o.key), unodb::value_view{reinterpret_cast<const std::byte*>(v.data()), v.size()});
        tr.add(r ? 11 : 10);
        if (r) keys.insert(o.key);
        break;
      }
      case REM: {
        if (violates(o.key)) break;
        const bool r = db.remove(mk_key(o.key));
        tr.add(r ? 21 : 20);
        if (r) keys.erase(o.key);
        if (OLC && scanned && r) tr.olc_scan_then_remove = true;
        break;
      }
      case GET: {
        if (violates(o.key)) break;
        if constexpr (MUTEX) {
          auto r = db.get(mk_key(o.key));
          tr.add(r.first ? hash_bytes(r.first->data(), r.first->size()) : 30);
        } else if constexpr (OLC) {
          auto r = db.get(mk_key(o.key));
          tr.add(r ? hash_bytes(r->begin().get(), r->size()) : 30);
        } else {
          auto r = db.get(mk_key(o.key));
          tr.add(r ? hash_bytes(r->data(), r->size()) : 30);
        }
        break;
      }
      case EMPTY:
        tr.add(db.empty() ? 41 : 40);
        break;
      case CLEAR:
        db.clear();
        keys.clear();
        tr.add(50);
        break;
      case QUIESCE:
        if constexpr (OLC) unodb::this_thread().quiescent();
        break;
      case SCAN:
      case SCAN_FROM:
      case SCAN_RANGE: {
        if (o.kind != SCAN && (violates(o.key) || (o.kind == SCAN_RANGE && (violates(o.key2) || (o.key != o.key2 && prefix_related(o.key, o.key2)))))) break;
        std::uint64_t h = 60;
        std::size_t n = 0;
        auto fn = [&](const auto& v) {
          const auto k = v.get_key();
          h = hash_combine(h, hash_bytes(k.data(), k.size()));
          if constexpr (OLC) {
            const auto val = v.get_value();
            h = hash_combine(h, hash_bytes(val.begin().get(), val.size()));
          } else {
            const auto val = v.get_value();
            h = hash_combine(h, hash_bytes(val.data(), val.size()));
          }
          ++n;
          return o.halt > 0 && static_cast<int>(n) >= o.halt;
        };
        if (o.kind == SCAN) db.scan(fn, o.fwd);
        else if (o.kind == SCAN_FROM) db.scan_from(mk_key(o.key), fn, o.fwd);
        else db.scan_range(mk_key(o.key), mk_key(o.key2), fn);
        tr.add(hash_combine(h, n));
        scanned = true;
        break;
      }
      default:
        break;
    }
#ifdef UNODB_DETAIL_WITH_STATS
    {
      const auto nc = db.get_node_counts();
      const auto g = db.get_growing_inode_counts();
      const auto s = db.get_shrinking_inode_counts();
      for (auto x : nc) tr.adds(x);
      for (auto x : g) tr.adds(x);
      for (auto x : s) tr.adds(x);
      tr.adds(db.get_key_prefix_splits());
      tr.memh = hash_combine(tr.memh, db.get_current_memory_use());
      if (nc[2] > 0 || nc[3] > 0) tr.reached_i16_i48 = true;
    }
#endif
  }
}

void run_case(const scase& c, trace& tr) {
  using u64 = std::uint64_t;
  using kv = unodb::key_view;
  using vv = unodb::value_view;
  switch (c.cfg) {
    case DB_U64: exec_case<unodb::db<u64, vv>, true, false, false>(c, tr); break;
    case MUTEX_U64: exec_case<unodb::mutex_db<u64, vv>, true, false, true>(c, tr); break;
    case OLC_U64: exec_case<unodb::olc_db<u64, vv>, true, true, false>(c, tr); break;
    case DB_KV: exec_case<unodb::db<kv, vv>, false, false, false>(c, tr); break;
    case MUTEX_KV: exec_case<unodb::mutex_db<kv, vv>, false, false, true>(c, tr); break;
    default: exec_case<unodb::olc_db<kv, vv>, false, true, false>(c, tr); break;
  }
  if (cfg_is_olc(c.cfg)) {
    unodb::this_thread().quiescent();
    unodb::this_thread().quiescent();
  }
}

void print_line(std::uint64_t i, const scase& c, const trace& tr) {
  std::printf("case %llu %s %zu %016llx ", static_cast<unsigned long long>(i), cfg_name(c.cfg), c.ops.size(),
              static_cast<unsigned long long>(tr.results));
#ifdef UNODB_DETAIL_WITH_STATS
  std::printf("%016llx %d%d %016llx\n", static_cast<unsigned long long>(tr.statsh), tr.reached_i16_i48 ? 1 : 0, tr.olc_scan_then_remove ? 1 : 0,
              static_cast<unsigned long long>(tr.memh));
#else
  std::printf("- -%d -\n", tr.olc_scan_then_remove ? 1 : 0);
#endif
}

}  // namespace

int main(int argc, char** argv) {
  args a(argc, argv);
  if (a.has("replay")) {
    scase c;
    if (!case_from_text(read_file(a.str("replay")), c)) return 2;
    struct itimerval tv {};
    tv.it_value.tv_sec = 60;
    setitimer(ITIMER_VIRTUAL, &tv, nullptr);
    trace tr;
    run_case(c, tr);
    print_line(0, c, tr);
    return 0;
  }
  const std::uint64_t seed = a.u64("seed", 1), cases = a.u64("cases", 100);
  gen_params gp;
  gp.size = static_cast<unsigned>(a.u64("size", 120));
  gp.fl = F_SCAN;
  gp.short_keys = true;
  const std::string emit = a.str("emit", "");
  for (std::uint64_t i = 0; i < cases; ++i) {
    vrng r(hash_combine(seed, i));
    scase c = generate_case(r, static_cast<int>(i % CFG_COUNT), gp, nullptr);
    if (cfg_is_u64(c.cfg) && (i / CFG_COUNT) % 4 == 1) {
      // completely full I256 (all 256 key bytes at one position; its 8-bit
      // children count wraps to 0): the universes (<= --size keys) never reach
      // it. 8-byte keys only, so prefix-freeness is not at stake. The history
      // generated above follows; the destructor / clear() then walks the node.
      const std::uint64_t h = hash_combine(hash_combine(seed, i), 0xF256);
      const unsigned pos = static_cast<unsigned>((h >> 8) % 8);  // 0 = last byte
      const std::uint64_t base = hash_combine(h, 1) & ~(0xFFULL << (8 * pos));
      std::vector<op> pre(256);
      for (unsigned b = 0; b < 256; ++b) {
        // insertion order: ascending, descending or interleaved
        const unsigned v = (h & 3) == 0 ? b : (h & 3) == 1 ? 255 - b : (b * 37) & 255;
        pre[b].kind = INS;
        pre[b].key = u64_to_be(base | (static_cast<std::uint64_t>(v) << (8 * pos)));
        pre[b].vlen = static_cast<std::uint32_t>(h >> 20) % 5;
        pre[b].vseed = static_cast<std::uint32_t>(h >> 32) + b;
      }
      c.ops.insert(c.ops.begin(), pre.begin(), pre.end());
    }
    if (!emit.empty() && a.u64("emit-index", ~0ULL) == i) {
      write_file(emit, case_to_text(c));
      return 0;
    }
    // announce before executing so that a crash (assertion) can be attributed
    std::printf("begin %llu\n", static_cast<unsigned long long>(i));
    std::fflush(stdout);
    {
      // CPU-time (not wall-clock) bound per history: a hang is a failure of this executor
      struct itimerval tv {};
      tv.it_value.tv_sec = 60;
      setitimer(ITIMER_VIRTUAL, &tv, nullptr);
    }
    trace tr;
    run_case(c, tr);
    print_line(i, c, tr);
  }
  return 0;
}
