// Key encoder / decoder harness: C11 (order embedding), C12 (round trip,
// sizes, encoder reuse), C15 (prefix freedom, text read/size bounds).
//
//   enc chains --prop C11|C12 --part I --parts N --out stats.json --fail-dir D
//       exhaustive successor chains of every 8/16/32-bit integer type and of
//       float (all 2^32 bit patterns), partitioned over processes
//   enc smalltext --prop C11|C15 --part I --parts N ...
//       all pairs of texts over {01,02,ff} up to length 6 with 0-2 trailing
//       zero bytes (exhaustive)
//   enc pairs --prop C11|C12|C15 --seed S --cases M --out .. --fail-dir D
//       structured + random pairs of component tuples of equal schema
//   enc --replay FILE --prop P
//
// The oracle restates the documented total orders; it shares no code with
// the encoder (uses libm nextafter / comparison operators / std::string).
#include "global.hpp"  // unodb: first

#include <sys/mman.h>
#include <unistd.h>

#include <bit>
#include <cmath>
#include <cstdint>
#include <cstring>
#include <iostream>
#include <limits>
#include <string>
#include <vector>

#include "art_common.hpp"

#include "../common/vcommon.hpp"

using namespace verif;

static const int EXIT_VIOLATED = 42;

enum ctype { U8, I8, U16, I16, U32, I32, U64, I64, F32, F64, TEXT, CT_COUNT };
static const char* ctype_name[] = {"u8", "i8", "u16", "i16", "u32", "i32", "u64", "i64", "f32", "f64", "text"};
static int ctype_from(const std::string& s) {
  for (int i = 0; i < CT_COUNT; ++i)
    if (s == ctype_name[i]) return i;
  return -1;
}
static unsigned ctype_size(int t) {
  static const unsigned sz[] = {1, 1, 2, 2, 4, 4, 8, 8, 4, 8, 0};
  return sz[t];
}

struct val {
  int t = U8;
  std::uint64_t bits = 0;  // raw two's complement / IEEE bits, zero-extended
  std::string text;
};

static constexpr std::size_t MAXLEN = unodb::key_encoder::maxlen;

// ---- oracle ---------------------------------------------------------------
static std::string norm_text(const std::string& t) {
  std::string s = t.substr(0, std::min<std::size_t>(t.size(), MAXLEN));
  while (!s.empty() && s.back() == '\0') s.pop_back();
  return s;
}
template <class F>
static int total_cmp_f(F a, F b) {
  const bool na = std::isnan(a), nb = std::isnan(b);
  if (na || nb) return na && nb ? 0 : (na ? 1 : -1);
  if (a < b) return -1;
  if (a > b) return 1;
  const bool sa = std::signbit(a), sb = std::signbit(b);  // -0 < +0
  if (sa == sb) return 0;
  return sa ? -1 : 1;
}
static std::int64_t sext(std::uint64_t bits, int t) {
  switch (t) {
    case I8: return static_cast<std::int8_t>(bits);
    case I16: return static_cast<std::int16_t>(bits);
    case I32: return static_cast<std::int32_t>(bits);
    default: return static_cast<std::int64_t>(bits);
  }
}
static int sgn(long long x) { return x < 0 ? -1 : x > 0 ? 1 : 0; }
static int oracle_cmp(const val& a, const val& b) {
  switch (a.t) {
    case U8: case U16: case U32: case U64:
      return a.bits < b.bits ? -1 : a.bits > b.bits ? 1 : 0;
    case I8: case I16: case I32: case I64: {
      const auto x = sext(a.bits, a.t), y = sext(b.bits, b.t);
      return x < y ? -1 : x > y ? 1 : 0;
    }
    case F32:
      return total_cmp_f(std::bit_cast<float>(static_cast<std::uint32_t>(a.bits)),
                         std::bit_cast<float>(static_cast<std::uint32_t>(b.bits)));
    case F64:
      return total_cmp_f(std::bit_cast<double>(a.bits), std::bit_cast<double>(b.bits));
    default: {
      const auto x = norm_text(a.text), y = norm_text(b.text);
      return sgn(x.compare(y));
    }
  }
}
static int oracle_cmp_tuple(const std::vector<val>& a, const std::vector<val>& b) {
  for (std::size_t i = 0; i < a.size(); ++i) {
    const int c = oracle_cmp(a[i], b[i]);
    if (c != 0) return c;
  }
  return 0;
}

// ---- system under test ------------------------------------------------------
static void encode_val(unodb::key_encoder& e, const val& v) {
  switch (v.t) {
    case U8: e.encode(static_cast<std::uint8_t>(v.bits)); break;
    case I8: e.encode(static_cast<std::int8_t>(v.bits)); break;
    case U16: e.encode(static_cast<std::uint16_t>(v.bits)); break;
    case I16: e.encode(static_cast<std::int16_t>(v.bits)); break;
    case U32: e.encode(static_cast<std::uint32_t>(v.bits)); break;
    case I32: e.encode(static_cast<std::int32_t>(v.bits)); break;
    case U64: e.encode(static_cast<std::uint64_t>(v.bits)); break;
    case I64: e.encode(static_cast<std::int64_t>(v.bits)); break;
    case F32: e.encode(std::bit_cast<float>(static_cast<std::uint32_t>(v.bits))); break;
    case F64: e.encode(std::bit_cast<double>(v.bits)); break;
    default:
      // both public overloads (span of bytes / string_view), chosen by content
      if ((v.text.size() & 1U) == 0)
        e.encode_text(std::span<const std::byte>(reinterpret_cast<const std::byte*>(v.text.data()), v.text.size()));
      else
        e.encode_text(std::string_view(v.text.data(), v.text.size()));
      break;
  }
}
static std::string encode_tuple(unodb::key_encoder& e, const std::vector<val>& t) {
  e.reset();
  for (auto& v : t) encode_val(e, v);
  const auto kv = e.get_key_view();
  return std::string(reinterpret_cast<const char*>(kv.data()), kv.size());
}
static std::string encode_tuple(const std::vector<val>& t) {
  unodb::key_encoder e;
  return encode_tuple(e, t);
}
static int bytes_cmp(const std::string& a, const std::string& b) { return sgn(a.compare(b)); }
static std::size_t lcp_len(const std::string& a, const std::string& b) {
  std::size_t i = 0;
  while (i < a.size() && i < b.size() && a[i] == b[i]) ++i;
  return i;
}
static bool is_prefix(const std::string& a, const std::string& b) {
  return a.size() <= b.size() && b.compare(0, a.size(), a) == 0;
}

// decode one fixed-size component; returns its bits
static std::uint64_t decode_val(unodb::key_decoder& d, int t) {
  switch (t) {
    case U8: { std::uint8_t x; d.decode(x); return x; }
    case I8: { std::int8_t x; d.decode(x); return static_cast<std::uint8_t>(x); }
    case U16: { std::uint16_t x; d.decode(x); return x; }
    case I16: { std::int16_t x; d.decode(x); return static_cast<std::uint16_t>(x); }
    case U32: { std::uint32_t x; d.decode(x); return x; }
    case I32: { std::int32_t x; d.decode(x); return static_cast<std::uint32_t>(x); }
    case U64: { std::uint64_t x; d.decode(x); return x; }
    case I64: { std::int64_t x; d.decode(x); return static_cast<std::uint64_t>(x); }
    case F32: { float x; d.decode(x); return std::bit_cast<std::uint32_t>(x); }
    default: { double x; d.decode(x); return std::bit_cast<std::uint64_t>(x); }
  }
}
// what decode(encode(v)) must return, as bits
static std::uint64_t expected_roundtrip(const val& v) {
  if (v.t == F32) {
    const float f = std::bit_cast<float>(static_cast<std::uint32_t>(v.bits));
    if (std::isnan(f)) return std::bit_cast<std::uint32_t>(std::numeric_limits<float>::quiet_NaN());
  } else if (v.t == F64) {
    const double f = std::bit_cast<double>(v.bits);
    if (std::isnan(f)) return std::bit_cast<std::uint64_t>(std::numeric_limits<double>::quiet_NaN());
  }
  return v.bits;
}

// ---- text format --------------------------------------------------------------
static std::string val_to_text(const val& v) {
  if (v.t == TEXT) return "x" + to_hex(v.text);
  char b[32];
  std::snprintf(b, sizeof b, "0x%llx", static_cast<unsigned long long>(v.bits));
  return b;
}
static val val_from_text(int t, const std::string& s) {
  val v;
  v.t = t;
  if (t == TEXT) v.text = from_hex(s.substr(1));
  else v.bits = std::strtoull(s.c_str(), nullptr, 0);
  return v;
}
struct pcase {
  std::vector<int> schema;
  std::vector<val> a, b;
  bool reuse = false;  // C12: encode b with an encoder reused after a
};
static std::string case_to_text(const pcase& c) {
  std::string t = "schema";
  for (int s : c.schema) t += std::string(" ") + ctype_name[s];
  t += "\na";
  for (auto& v : c.a) t += " " + val_to_text(v);
  t += "\nb";
  for (auto& v : c.b) t += " " + val_to_text(v);
  t += "\n";
  return t;
}
static std::string short_case(const pcase& c) {
  std::string t = case_to_text(c);
  if (t.size() > 600) t = t.substr(0, 600) + "...";
  return t;
}
static bool case_from_text(const std::string& text, pcase& c) {
  std::istringstream is(text);
  std::string line;
  while (std::getline(is, line)) {
    auto t = split_ws(line);
    if (t.empty() || t[0][0] == '#') continue;
    if (t[0] == "schema") {
      c.schema.clear();
      for (std::size_t i = 1; i < t.size(); ++i) {
        const int ct = ctype_from(t[i]);
        if (ct < 0) return false;
        c.schema.push_back(ct);
      }
    } else if (t[0] == "a" || t[0] == "b") {
      auto& dst = t[0] == "a" ? c.a : c.b;
      dst.clear();
      if (t.size() - 1 != c.schema.size()) return false;
      for (std::size_t i = 1; i < t.size(); ++i) dst.push_back(val_from_text(c.schema[i - 1], t[i]));
    }
  }
  return !c.schema.empty() && c.a.size() == c.schema.size() && c.b.size() == c.schema.size();
}

// ---- the property checks on one pair -------------------------------------------
struct outcome {
  bool ok = true;
  std::string msg;
  bool nontrivial = false;
};

static bool has_interior_zero(const val& v) {
  if (v.t != TEXT) return false;
  const std::string s = v.text.substr(0, std::min<std::size_t>(v.text.size(), MAXLEN));
  std::size_t end = s.size();
  while (end > 0 && s[end - 1] == '\0') --end;
  return s.find('\0') < end;
}

static bool near_text_limit(const val& v) {
  return v.t == TEXT && v.text.size() + 3 >= MAXLEN;
}

static outcome check_pair(const pcase& c, const std::string& prop) {
  outcome o;
  const std::string ea = encode_tuple(c.a), eb = encode_tuple(c.b);
  const int oc = oracle_cmp_tuple(c.a, c.b);
  const int bc = bytes_cmp(ea, eb);
  // first differing byte position
  std::size_t fd = 0;
  while (fd < ea.size() && fd < eb.size() && ea[fd] == eb[fd]) ++fd;
  if (prop == "C11") {
    if (oc != bc) {
      o.ok = false;
      o.msg = "byte order of encodings (" + std::to_string(bc) + ") != order of the values (" + std::to_string(oc) + ")";
      return o;
    }
    bool straddle = false;
    for (std::size_t i = 0; i < c.a.size(); ++i) {
      const auto &x = c.a[i], &y = c.b[i];
      if (x.t == TEXT) continue;
      const unsigned w = ctype_size(x.t) * 8;
      const std::uint64_t top = 1ULL << (w - 1);
      if ((x.bits & top) != (y.bits & top)) straddle = true;  // sign boundary
      if (x.t == F32 || x.t == F64) {
        const unsigned mant = x.t == F32 ? 23 : 52;
        if ((x.bits >> mant) != (y.bits >> mant)) straddle = true;  // exponent / special
      }
    }
    o.nontrivial = oc != 0 && (fd > 0 || straddle);
  } else if (prop == "C15") {
    const bool equal = oc == 0;  // equality after normalisation (-0 != +0, NaNs unified)
    if (equal != (ea == eb)) {
      o.ok = false;
      o.msg = std::string("encodings are ") + (ea == eb ? "equal" : "different") + " but the normalised components are " +
              (equal ? "equal" : "different");
      return o;
    }
    if (!equal && (is_prefix(ea, eb) || is_prefix(eb, ea))) {
      o.ok = false;
      o.msg = "one encoding is a proper prefix of the other";
      return o;
    }
    // size bound: text emits at most min(len,maxlen)+3 bytes
    std::size_t bound_a = 0;
    bool anytext = false, nearlimit = false, proper_prefix_texts = false;
    for (std::size_t i = 0; i < c.a.size(); ++i) {
      if (c.a[i].t == TEXT) {
        anytext = true;
        bound_a += MAXLEN + 3;  // the statement's bound: at most maxlen bytes plus the three-byte terminator
        if (near_text_limit(c.a[i]) || near_text_limit(c.b[i])) nearlimit = true;
        const auto &x = c.a[i].text, &y = c.b[i].text;
        if (x != y && (is_prefix(x, y) || is_prefix(y, x))) proper_prefix_texts = true;
      } else {
        bound_a += ctype_size(c.a[i].t);
      }
    }
    if (ea.size() > bound_a) {
      o.ok = false;
      o.msg = "encoding is longer than the documented bound (" + std::to_string(ea.size()) + " > " + std::to_string(bound_a) + ")";
      return o;
    }
    (void)anytext;
    o.nontrivial = fd > 0 || proper_prefix_texts || nearlimit;
  } else {  // C12
    // sizes: every fixed-size component occupies exactly its size
    {
      unodb::key_encoder e;
      for (auto& v : c.a) {
        const auto before = e.size_bytes();
        encode_val(e, v);
        if (v.t != TEXT && e.size_bytes() - before != ctype_size(v.t)) {
          o.ok = false;
          o.msg = std::string("component of type ") + ctype_name[v.t] + " occupied " +
                  std::to_string(e.size_bytes() - before) + " bytes";
          return o;
        }
      }
    }
    // reuse: encoder that encoded b (and possibly grew), reset, then a
    {
      unodb::key_encoder e;
      (void)encode_tuple(e, c.b);
      const std::string again = encode_tuple(e, c.a);
      if (again != ea) {
        o.ok = false;
        o.msg = "an encoder reused after reset() yields different bytes than a fresh one";
        return o;
      }
      // and a third time without intervening growth
      const std::string third = encode_tuple(e, c.a);
      if (third != ea) {
        o.ok = false;
        o.msg = "re-encoding with the same encoder yields different bytes";
        return o;
      }
    }
    // round trip of all leading fixed-size components (decoder cannot skip text)
    {
      const unodb::key_view kv(reinterpret_cast<const std::byte*>(ea.data()), ea.size());
      unodb::key_decoder d(kv);
      for (auto& v : c.a) {
        if (v.t == TEXT) break;
        const std::uint64_t got = decode_val(d, v.t);
        const std::uint64_t want = expected_roundtrip(v);
        if (got != want) {
          o.ok = false;
          o.msg = std::string("decode(encode(v)) != v for type ") + ctype_name[v.t] + ": v=" + val_to_text(v) +
                  " got bits 0x" + to_hex(u64_to_be(got));
          return o;
        }
      }
    }
    o.nontrivial = ea.size() > unodb::detail::INITIAL_BUFFER_CAPACITY || eb.size() > unodb::detail::INITIAL_BUFFER_CAPACITY ||
                   c.a.size() >= 2;
  }
  return o;
}

// ---- generators -------------------------------------------------------------------
static std::uint64_t mask_of(int t) {
  const unsigned s = ctype_size(t);
  return s == 8 ? ~0ULL : ((1ULL << (8 * s)) - 1);
}
static std::uint64_t gen_int_bits(vrng& r, int t) {
  const unsigned w = ctype_size(t) * 8;
  const std::uint64_t m = mask_of(t);
  switch (r.below(8)) {
    case 0: return r.below(4) & m;                                   // 0..3
    case 1: return (0 - r.below(4)) & m;                             // -1.. / max..
    case 2: return (1ULL << (w - 1)) + (r.below(5) - 2) & m;         // around sign boundary
    case 3: {                                                        // 2^k - 1, 2^k, 2^k + 1
      const unsigned k = static_cast<unsigned>(r.below(w));
      return ((1ULL << k) + r.below(3) - 1) & m;
    }
    case 4: {                                                        // byte-position pattern
      const unsigned j = static_cast<unsigned>(r.below(w / 8));
      return (r.below(256) << (8 * j)) & m;
    }
    case 5: return (r.next() >> r.below(w)) & m;
    default: return r.next() & m;
  }
}
static std::uint64_t gen_float_bits(vrng& r, int t) {
  const unsigned mant = t == F32 ? 23 : 52, w = t == F32 ? 32 : 64;
  const std::uint64_t m = mask_of(t);
  const std::uint64_t sign = r.chance(1, 2) ? (1ULL << (w - 1)) : 0;
  const std::uint64_t expmask = ((1ULL << (w - 1 - mant)) - 1) << mant;
  switch (r.below(10)) {
    case 0: return sign;                                       // +-0
    case 1: return sign | r.range(1, 3);                       // denormals
    case 2: return sign | ((1ULL << mant) + r.below(3) - 1);   // around min normal
    case 3: return sign | expmask;                             // +-inf
    case 4: return sign | (expmask - r.below(3));              // around max finite
    case 5: return sign | expmask | r.range(1, (1ULL << mant) - 1);  // NaN payloads
    case 6: {                                                  // exponent boundary
      const std::uint64_t e = r.below((expmask >> mant) + 1);
      return (sign | (e << mant)) + r.below(3) - 1;
    }
    case 7: {                                                  // around +-1
      const std::uint64_t one = t == F32 ? 0x3f800000ULL : 0x3ff0000000000000ULL;
      return sign | (one + r.below(5) - 2);
    }
    default: return r.next() & m;
  }
}
static std::string gen_text(vrng& r, const std::string& longbase) {
  std::string s;
  switch (r.below(6)) {
    case 0: case 1: {  // short over a small alphabet
      static const char alph[] = {1, 2, static_cast<char>(0xFF), 'a'};
      const unsigned n = static_cast<unsigned>(r.below(7));
      for (unsigned i = 0; i < n; ++i) s.push_back(alph[r.below(4)]);
      break;
    }
    case 2: {  // random bytes without zeros
      const unsigned n = static_cast<unsigned>(r.below(r.chance(1, 4) ? 600 : 40));
      for (unsigned i = 0; i < n; ++i) s.push_back(static_cast<char>(1 + r.below(255)));
      break;
    }
    case 3: {  // around the maximum length
      const std::size_t n = MAXLEN - 6 + r.below(14);
      s = longbase.substr(0, n);
      if (r.chance(1, 2) && !s.empty()) {
        const std::size_t p = s.size() - 1 - r.below(std::min<std::size_t>(s.size(), 12));
        s[p] = static_cast<char>(1 + r.below(255));
      }
      break;
    }
    case 4: {  // far beyond the maximum length
      s = longbase.substr(0, MAXLEN + r.below(200));
      break;
    }
    default: {  // around the encoder's internal buffer size
      const unsigned n = 240 + static_cast<unsigned>(r.below(30));
      for (unsigned i = 0; i < n; ++i) s.push_back(static_cast<char>(1 + r.below(255)));
      break;
    }
  }
  const unsigned tz = r.chance(1, 3) ? static_cast<unsigned>(r.below(4)) : 0;
  s.append(tz, '\0');
  return s;
}
static val gen_val(vrng& r, int t, const std::string& longbase) {
  val v;
  v.t = t;
  if (t == TEXT) v.text = gen_text(r, longbase);
  else if (t == F32 || t == F64) v.bits = gen_float_bits(r, t) & mask_of(t);
  else v.bits = gen_int_bits(r, t);
  return v;
}
static val gen_near(vrng& r, const val& a, const std::string& longbase) {
  val v = a;
  if (a.t == TEXT) {
    switch (r.below(5)) {
      case 0: break;  // equal
      case 1: v.text.append(1 + r.below(2), '\0'); break;            // padding only
      case 2: v.text.push_back(static_cast<char>(1 + r.below(255))); break;  // extension
      case 3:
        if (!v.text.empty()) v.text.pop_back();
        break;
      default:
        if (!v.text.empty()) {
          const std::size_t p = r.below(v.text.size());
          v.text[p] = static_cast<char>(1 + r.below(255));
        } else {
          v = gen_val(r, TEXT, longbase);
        }
        break;
    }
    return v;
  }
  const std::uint64_t m = mask_of(a.t);
  switch (r.below(5)) {
    case 0: break;
    case 1: v.bits = (a.bits + 1) & m; break;
    case 2: v.bits = (a.bits - 1) & m; break;
    case 3: v.bits = (a.bits ^ (1ULL << r.below(ctype_size(a.t) * 8))) & m; break;
    default: v.bits = (a.bits ^ (r.below(256) << (8 * r.below(ctype_size(a.t))))) & m; break;
  }
  return v;
}

static pcase gen_case(vrng& r, const std::string& prop, const std::string& longbase) {
  pcase c;
  unsigned n;
  if (prop == "C12") n = r.chance(1, 3) ? 1 + static_cast<unsigned>(r.below(200)) : 1 + static_cast<unsigned>(r.below(6));
  else n = r.chance(1, 3) ? 1 : 1 + static_cast<unsigned>(r.below(5));
  bool had_long = false;
  for (unsigned i = 0; i < n; ++i) {
    int t = static_cast<int>(r.below(CT_COUNT));
    if (prop == "C12" && n > 6 && t == TEXT && r.chance(3, 4)) t = static_cast<int>(r.below(TEXT));
    c.schema.push_back(t);
  }
  // equal prefix of components, then a near or independent pair, then free
  const unsigned diverge = static_cast<unsigned>(r.below(n));
  for (unsigned i = 0; i < n; ++i) {
    val a = gen_val(r, c.schema[i], longbase);
    if (a.t == TEXT && a.text.size() > 1000) {
      if (had_long) a.text = a.text.substr(0, 5);  // keep cases small: one long text
      had_long = true;
    }
    val b;
    if (i < diverge) b = r.chance(1, 8) ? gen_near(r, a, longbase) : a;
    else if (i == diverge) b = r.chance(2, 3) ? gen_near(r, a, longbase) : gen_val(r, c.schema[i], longbase);
    else b = r.chance(1, 2) ? gen_val(r, c.schema[i], longbase) : a;
    if (b.t == TEXT && b.text.size() > 1000 && a.text.size() <= 1000) {
      if (had_long) b.text = b.text.substr(0, 5);
      had_long = true;
    }
    c.a.push_back(a);
    c.b.push_back(b);
  }
  return c;
}

static bool case_in_domain(const pcase& c, const std::string& prop) {
  if (prop == "C12") return true;
  for (auto& v : c.a)
    if (has_interior_zero(v)) return false;
  for (auto& v : c.b)
    if (has_interior_zero(v)) return false;
  return true;
}

// shrink: drop components, simplify values
static pcase shrink_case(pcase c, const std::string& prop) {
  auto fails = [&](const pcase& x) { return case_in_domain(x, prop) && !check_pair(x, prop).ok; };
  bool progress = true;
  while (progress) {
    progress = false;
    for (std::size_t i = 0; i < c.schema.size() && c.schema.size() > 1; ++i) {
      pcase d = c;
      d.schema.erase(d.schema.begin() + static_cast<long>(i));
      d.a.erase(d.a.begin() + static_cast<long>(i));
      d.b.erase(d.b.begin() + static_cast<long>(i));
      if (fails(d)) {
        c = d;
        progress = true;
        break;
      }
    }
    if (progress) continue;
    for (std::size_t i = 0; i < c.schema.size(); ++i) {
      for (int side = 0; side < 2; ++side) {
        pcase d = c;
        val& v = side ? d.b[i] : d.a[i];
        if (v.t == TEXT) {
          if (v.text.empty()) continue;
          v.text = v.text.size() > 8 ? v.text.substr(0, v.text.size() / 2) : v.text.substr(0, v.text.size() - 1);
        } else {
          if (v.bits == 0) continue;
          v.bits = v.bits >> 1;
        }
        if (fails(d)) {
          c = d;
          progress = true;
        }
      }
    }
  }
  return c;
}

// ---- exhaustive chains ---------------------------------------------------------------
struct chain_fail {
  bool failed = false;
  std::string text;  // replay text
  std::string msg;
};

template <class T>
static std::string enc1(T v) {
  unodb::key_encoder e;
  e.encode(v);
  const auto kv = e.get_key_view();
  return std::string(reinterpret_cast<const char*>(kv.data()), kv.size());
}

static bool chain_step(int t, std::uint64_t bits, const std::string& prop, std::string& msg, bool& counted) {
  // one value: order against its successor (C11) / round trip + size (C12)
  val v;
  v.t = t;
  v.bits = bits;
  counted = true;
  if (prop == "C12") {
    pcase c;
    c.schema = {t};
    c.a = {v};
    c.b = {v};
    auto o = check_pair(c, "C12");
    msg = o.msg;
    return o.ok;
  }
  val s = v;
  if (t == F32) {
    const float f = std::bit_cast<float>(static_cast<std::uint32_t>(bits));
    if (std::isnan(f)) {
      // all NaNs encode equal and greater than +inf
      const std::string en = enc1(f);
      const std::string ei = enc1(std::numeric_limits<float>::infinity());
      const std::string eq = enc1(std::numeric_limits<float>::quiet_NaN());
      if (en != eq) { msg = "two NaNs encode differently"; return false; }
      if (!(ei < en)) { msg = "NaN does not encode greater than +inf"; return false; }
      return true;
    }
    if (std::isinf(f) && f > 0) { counted = false; return true; }  // top of the chain
    float nx = std::nextafterf(f, std::numeric_limits<float>::infinity());
    if (f == 0.0f && std::signbit(f)) nx = 0.0f;                      // -0 -> +0
    else if (nx == 0.0f && f < 0) nx = -0.0f;                         // -denorm_min -> -0
    s.bits = std::bit_cast<std::uint32_t>(nx);
  } else {
    const bool is_signed = (t == I8 || t == I16 || t == I32);
    const unsigned w = ctype_size(t) * 8;
    const std::uint64_t m = mask_of(t);
    const std::uint64_t top = is_signed ? ((1ULL << (w - 1)) - 1) : m;  // max value
    if (bits == top) { counted = false; return true; }
    s.bits = (bits + 1) & m;
  }
  pcase c;
  c.schema = {t};
  c.a = {v};
  c.b = {s};
  const std::string ea = encode_tuple(c.a), eb = encode_tuple(c.b);
  if (!(ea < eb)) {
    msg = std::string("enc(v) is not below enc(succ(v)) for ") + ctype_name[t] + " v=" + val_to_text(v) + " succ=" + val_to_text(s);
    return false;
  }
  if (oracle_cmp(v, s) >= 0) {  // self-check of the chain construction
    msg = "harness error: successor is not greater";
    return false;
  }
  return true;
}

// ---- fast paths of the exhaustive chains (no allocation per step) -----------
template <class T>
static T from_bits(std::uint64_t b) {
  if constexpr (std::is_same_v<T, float>) {
    return std::bit_cast<float>(static_cast<std::uint32_t>(b));
  } else {
    using U = std::make_unsigned_t<T>;
    return static_cast<T>(static_cast<U>(b));
  }
}
template <class T>
static std::uint64_t to_bits(T v) {
  if constexpr (std::is_same_v<T, float>) {
    return std::bit_cast<std::uint32_t>(v);
  } else {
    using U = std::make_unsigned_t<T>;
    return static_cast<U>(v);
  }
}
// returns the first failing bit pattern, or ~0 if none; counts steps
template <class T>
static std::uint64_t fast_chain(std::uint64_t lo, std::uint64_t hi, bool c12, std::uint64_t& steps) {
  unodb::key_encoder e1, e2, e3, e4;
  [[maybe_unused]] std::uint64_t qnan_bits = 0;
  if constexpr (std::is_same_v<T, float>) {
    e3.encode(std::numeric_limits<float>::quiet_NaN());
    e4.encode(std::numeric_limits<float>::infinity());
    qnan_bits = std::bit_cast<std::uint32_t>(std::numeric_limits<float>::quiet_NaN());
  }
  for (std::uint64_t b = lo; b < hi; ++b) {
    const T v = from_bits<T>(b);
    e1.reset().encode(v);
    if (c12) {
      if (e1.size_bytes() != sizeof(T)) return b;
      unodb::key_decoder d(e1.get_key_view());
      T back;
      d.decode(back);
      std::uint64_t want = b;
      if constexpr (std::is_same_v<T, float>) {
        if (std::isnan(v)) want = qnan_bits;
      }
      if (to_bits<T>(back) != want) return b;
      ++steps;
      continue;
    }
    T s;
    if constexpr (std::is_same_v<T, float>) {
      if (std::isnan(v)) {
        if (std::memcmp(e1.get_key_view().data(), e3.get_key_view().data(), 4) != 0) return b;
        if (std::memcmp(e4.get_key_view().data(), e1.get_key_view().data(), 4) >= 0) return b;
        ++steps;
        continue;
      }
      if (std::isinf(v) && v > 0) continue;
      s = std::nextafterf(v, std::numeric_limits<float>::infinity());
      if (v == 0.0f && std::signbit(v)) s = 0.0f;
      else if (s == 0.0f && v < 0) s = -0.0f;
      if (!(v < s) && !(v == 0.0f && s == 0.0f)) return b;  // chain self-check
    } else {
      if (v == std::numeric_limits<T>::max()) continue;
      s = static_cast<T>(v + 1);
    }
    e2.reset().encode(s);
    if (e1.size_bytes() != sizeof(T) || e2.size_bytes() != sizeof(T)) return b;
    if (std::memcmp(e1.get_key_view().data(), e2.get_key_view().data(), sizeof(T)) >= 0) return b;
    ++steps;
  }
  return ~0ULL;
}
static std::uint64_t fast_chain_dispatch(int t, std::uint64_t lo, std::uint64_t hi, bool c12, std::uint64_t& steps) {
  switch (t) {
    case U8: return fast_chain<std::uint8_t>(lo, hi, c12, steps);
    case I8: return fast_chain<std::int8_t>(lo, hi, c12, steps);
    case U16: return fast_chain<std::uint16_t>(lo, hi, c12, steps);
    case I16: return fast_chain<std::int16_t>(lo, hi, c12, steps);
    case U32: return fast_chain<std::uint32_t>(lo, hi, c12, steps);
    case I32: return fast_chain<std::int32_t>(lo, hi, c12, steps);
    default: return fast_chain<float>(lo, hi, c12, steps);
  }
}

#ifndef VERIF_FUZZ
int main(int argc, char** argv) {
  args a(argc, argv);
  const std::string prop = a.str("prop", "C11");
  const std::string mode = argc > 1 && argv[1][0] != '-' ? argv[1] : "";
  const std::string out = a.str("out", "");
  const std::string fail_dir = a.str("fail-dir", ".");
  stats st;

  if (a.has("replay")) {
    const std::string text = read_file(a.str("replay"));
    if (text.find("\nchain ") != std::string::npos || text.rfind("chain ", 0) == 0) {
      // chain <type> <bits>
      std::istringstream is(text);
      std::string line;
      while (std::getline(is, line)) {
        auto t = split_ws(line);
        if (t.size() >= 3 && t[0] == "chain") {
          std::string msg;
          bool counted;
          if (!chain_step(ctype_from(t[1]), std::strtoull(t[2].c_str(), nullptr, 0), prop, msg, counted)) {
            std::cout << "FAIL " << msg << "\n";
            return EXIT_VIOLATED;
          }
        }
      }
      std::cout << "PASS\n";
      return 0;
    }
    pcase c;
    if (!case_from_text(text, c)) {
      std::cerr << "cannot parse replay\n";
      return 2;
    }
    if (!case_in_domain(c, prop)) {
      std::cout << "PASS (outside the property's domain: text with interior zero bytes)\n";
      return 0;
    }
    auto o = check_pair(c, prop);
    if (!o.ok) {
      std::cout << "FAIL " << o.msg << "\n";
      return EXIT_VIOLATED;
    }
    std::cout << "PASS\n";
    return 0;
  }

  auto report_fail = [&](const std::string& name, const std::string& text, const std::string& msg) {
    const std::string path = fail_dir + "/" + prop + "_" + name + ".txt";
    write_file(path, "# property " + prop + " violated: " + msg + "\n" + text);
    if (!out.empty()) st.write(out);
    std::cout << "FAILURE " << path << " :: " << msg << "\n";
    return 1;
  };

  if (mode == "chains") {
    const std::uint64_t part = a.u64("part", 0), parts = a.u64("parts", 1);
    // 8- and 16-bit types: every process does them (cheap); 32-bit types and
    // float: partitioned by bit pattern
    for (int t : {U8, I8, U16, I16, U32, I32, F32}) {
      const unsigned w = ctype_size(t) * 8;
      const std::uint64_t total = 1ULL << w;
      std::uint64_t lo = 0, hi = total;
      if (w == 32) {
        lo = total / parts * part;
        hi = part + 1 == parts ? total : total / parts * (part + 1);
      } else if (part != 0) {
        continue;
      }
      std::uint64_t steps = 0;
      const std::uint64_t bad = fast_chain_dispatch(t, lo, hi, prop == "C12", steps);
      if (bad != ~0ULL) {
        // confirm and describe with the generic (replayable) step
        std::string msg;
        bool counted = false;
        if (chain_step(t, bad, prop, msg, counted)) msg = "fast chain loop failed at this value (generic step passes)";
        char buf[64];
        std::snprintf(buf, sizeof buf, "chain %s 0x%llx\n", ctype_name[t], static_cast<unsigned long long>(bad));
        return report_fail(std::string("chain_") + ctype_name[t] + "_" + std::to_string(bad), buf, msg);
      }
      st.inc(std::string("chain_steps.") + ctype_name[t], steps);
      st.inc("chain_steps", steps);
      if (part == 0) {
        char buf[96];
        std::snprintf(buf, sizeof buf, "chain %s 0x%llx .. 0x%llx (every value against its successor)", ctype_name[t],
                      static_cast<unsigned long long>(lo), static_cast<unsigned long long>(hi - 1));
        st.add_sample(buf);
      }
    }
    if (!out.empty()) st.write(out);
    return 0;
  }

  if (mode == "smalltext") {
    // all texts over {01,02,ff} up to length 6 with 0..2 trailing zero bytes
    std::vector<std::string> texts;
    const char alph[3] = {1, 2, static_cast<char>(0xFF)};
    for (unsigned len = 0; len <= 6; ++len) {
      unsigned total = 1;
      for (unsigned i = 0; i < len; ++i) total *= 3;
      for (unsigned x = 0; x < total; ++x) {
        std::string s;
        unsigned y = x;
        for (unsigned i = 0; i < len; ++i) {
          s.push_back(alph[y % 3]);
          y /= 3;
        }
        for (unsigned tz = 0; tz <= 2; ++tz) texts.push_back(s + std::string(tz, '\0'));
      }
    }
    const std::uint64_t part = a.u64("part", 0), parts = a.u64("parts", 1);
    std::uint64_t pairs = 0, nontriv = 0;
    std::vector<std::string> encs;
    for (auto& t : texts) {
      val v;
      v.t = TEXT;
      v.text = t;
      encs.push_back(encode_tuple({v}));
    }
    for (std::size_t i = part; i < texts.size(); i += parts) {
      for (std::size_t j = 0; j < texts.size(); ++j) {
        const std::string ni = norm_text(texts[i]), nj = norm_text(texts[j]);
        const int oc = sgn(ni.compare(nj));
        const int bc = bytes_cmp(encs[i], encs[j]);
        bool ok = true;
        std::string msg;
        if (prop == "C11") {
          if (oc != bc) {
            ok = false;
            msg = "byte order of text encodings != order of the normalised texts";
          }
        } else {
          if ((oc == 0) != (encs[i] == encs[j])) {
            ok = false;
            msg = "text encodings equal/different inconsistently with the normalised texts";
          } else if (oc != 0 && (is_prefix(encs[i], encs[j]) || is_prefix(encs[j], encs[i]))) {
            ok = false;
            msg = "one text encoding is a proper prefix of the other";
          } else if (encs[i].size() > MAXLEN + 3) {
            ok = false;
            msg = "text encoding longer than maxlen+3";
          }
        }
        if (!ok) {
          pcase c;
          c.schema = {TEXT};
          val x, y;
          x.t = y.t = TEXT;
          x.text = texts[i];
          y.text = texts[j];
          c.a = {x};
          c.b = {y};
          return report_fail("smalltext_" + std::to_string(i) + "_" + std::to_string(j), case_to_text(c), msg);
        }
        ++pairs;
        if (oc != 0 && (is_prefix(texts[i], texts[j]) || is_prefix(texts[j], texts[i]) || lcp_len(ni, nj) > 0)) ++nontriv;
      }
    }
    st.inc("smalltext_pairs", pairs);
    st.inc("smalltext_pairs_nontrivial", nontriv);
    st.inc("smalltext_texts", part == 0 ? texts.size() : 0);
    if (!out.empty()) st.write(out);
    return 0;
  }

  if (mode == "guard") {
    // C15: encode_text reads at most maxlen bytes of input: the text ends at
    // a PROT_NONE page after maxlen bytes but is passed with a longer length.
    const long ps = sysconf(_SC_PAGESIZE);
    const std::size_t pages = (MAXLEN + static_cast<std::size_t>(ps) - 1) / static_cast<std::size_t>(ps) + 1;
    char* base = static_cast<char*>(mmap(nullptr, (pages + 1) * static_cast<std::size_t>(ps), PROT_READ | PROT_WRITE,
                                         MAP_PRIVATE | MAP_ANONYMOUS, -1, 0));
    if (base == MAP_FAILED) return 2;
    char* guard = base + pages * static_cast<std::size_t>(ps);
    mprotect(guard, static_cast<std::size_t>(ps), PROT_NONE);
    char* text = guard - MAXLEN;
    vrng r(a.u64("seed", 1));
    std::uint64_t n = 0;
    for (int iter = 0; iter < 24; ++iter) {
      for (std::size_t i = 0; i < MAXLEN; ++i) text[i] = static_cast<char>(1 + r.below(255));
      if (iter % 3 == 1) std::memset(text + MAXLEN - 5, 0, 5);  // trailing zeros before the limit
      for (std::size_t extra : {std::size_t{1}, std::size_t{2}, std::size_t{4096}, std::size_t{1} << 20}) {
        unodb::key_encoder e;
        // a fault here (SIGSEGV) is the violation: reading beyond maxlen
        e.encode_text(std::span<const std::byte>(reinterpret_cast<const std::byte*>(text), MAXLEN + extra));
        if (e.size_bytes() > MAXLEN + 3) return report_fail("guard_size", "guard\n", "text encoding exceeds maxlen+3 bytes");
        // must equal the encoding of exactly the first maxlen bytes
        unodb::key_encoder f;
        f.encode_text(std::span<const std::byte>(reinterpret_cast<const std::byte*>(text), MAXLEN));
        const auto k1 = e.get_key_view(), k2 = f.get_key_view();
        if (k1.size() != k2.size() || std::memcmp(k1.data(), k2.data(), k1.size()) != 0)
          return report_fail("guard_trunc", "guard\n", "over-long text does not encode like its first maxlen bytes");
        ++n;
      }
    }
    st.inc("guard_page_encodes", n);
    if (!out.empty()) st.write(out);
    return 0;
  }

  // mode == pairs
  const std::uint64_t seed = a.u64("seed", 1), cases = a.u64("cases", 1000);
  std::string longbase;
  {
    vrng r(seed ^ 0x5555);
    for (std::size_t i = 0; i < MAXLEN + 300; ++i) longbase.push_back(static_cast<char>(1 + r.below(255)));
  }
  for (std::uint64_t i = 0; i < cases; ++i) {
    vrng r(hash_combine(seed, i));
    pcase c = gen_case(r, prop, longbase);
    if (!case_in_domain(c, prop)) {
      st.inc("discarded_interior_zero");
      continue;
    }
    auto o = check_pair(c, prop);
    st.inc("pairs");
    st.inc("components", c.schema.size());
    for (int t : c.schema) st.inc(std::string("component.") + ctype_name[t]);
    if (o.nontrivial) st.add_nontrivial(hash_str(case_to_text(c)));
    if (i < 3 || i % 9973 == 0) st.add_sample(short_case(c));
    if (!o.ok) {
      pcase s = shrink_case(c, prop);
      auto o2 = check_pair(s, prop);
      return report_fail("seed" + std::to_string(seed) + "_case" + std::to_string(i), case_to_text(s), o2.ok ? o.msg : o2.msg);
    }
  }
  if (!out.empty()) st.write(out);
  return 0;
}
#else  // VERIF_FUZZ: libFuzzer target (second engine for C11 / C12 / C15)
#include <fuzzer/FuzzedDataProvider.h>

// bytes -> (schema, two tuples of that schema); the oracle of the property
// named by VERIF_FUZZ_PROP runs inside the target; a failure writes the pair
// as text (the replay unit of `enc --replay`) and traps.
extern "C" int LLVMFuzzerTestOneInput(const uint8_t* data, size_t size) {
  static const std::string prop = std::getenv("VERIF_FUZZ_PROP") ? std::getenv("VERIF_FUZZ_PROP") : "C11";
  static const std::string outdir = std::getenv("VERIF_FUZZ_OUT") ? std::getenv("VERIF_FUZZ_OUT") : ".";
  static const bool dump = std::getenv("VERIF_FUZZ_DUMP") != nullptr;
  static const std::string longbase = [] {
    std::string b;
    vrng r(99);
    for (std::size_t i = 0; i < MAXLEN + 300; ++i) b.push_back(static_cast<char>(1 + r.below(255)));
    return b;
  }();
  FuzzedDataProvider fdp(data, size);
  pcase c;
  const unsigned n = fdp.ConsumeIntegralInRange<unsigned>(1, prop == "C12" ? 40 : 5);
  bool had_long = false;
  for (unsigned i = 0; i < n; ++i) {
    const int t = fdp.ConsumeIntegralInRange<int>(0, CT_COUNT - 1);
    c.schema.push_back(t);
    val a, b;
    a.t = b.t = t;
    if (t == TEXT) {
      auto mk = [&](val& v) {
        const unsigned kind = fdp.ConsumeIntegralInRange<unsigned>(0, 5);
        if (kind == 0 && !had_long) {  // around / beyond the maximum length
          v.text = longbase.substr(0, MAXLEN - 8 + fdp.ConsumeIntegralInRange<unsigned>(0, 40));
          had_long = true;
        } else {
          v.text = fdp.ConsumeBytesAsString(fdp.ConsumeIntegralInRange<unsigned>(0, kind == 1 ? 300 : 12));
        }
        v.text.append(fdp.ConsumeIntegralInRange<unsigned>(0, 2), '\0');
      };
      mk(a);
      if (fdp.ConsumeBool()) {
        b = a;
        if (fdp.ConsumeBool() && !b.text.empty()) b.text[fdp.ConsumeIntegralInRange<std::size_t>(0, b.text.size() - 1)] ^= 1;
        if (fdp.ConsumeBool()) b.text.push_back(static_cast<char>(fdp.ConsumeIntegral<std::uint8_t>()));
      } else {
        mk(b);
      }
    } else {
      a.bits = fdp.ConsumeIntegral<std::uint64_t>() & mask_of(t);
      b.bits = fdp.ConsumeBool() ? ((a.bits + fdp.ConsumeIntegralInRange<int>(-2, 2)) & mask_of(t)) : (fdp.ConsumeIntegral<std::uint64_t>() & mask_of(t));
    }
    c.a.push_back(a);
    c.b.push_back(b);
  }
  if (!case_in_domain(c, prop)) return 0;
  if (dump) write_file(outdir + "/last_case.txt", case_to_text(c));
  const outcome o = check_pair(c, prop);
  if (!o.ok) {
    write_file(outdir + "/fuzz_fail_" + std::to_string(hash_str(case_to_text(c))) + ".txt",
               "# libFuzzer: property " + prop + " violated: " + o.msg + "\n" + case_to_text(c));
    __builtin_trap();
  }
  return 0;
}
#endif

