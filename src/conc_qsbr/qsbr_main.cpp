// C05 / C06: QSBR never frees what a registered thread may still reference;
// every deferred deallocation runs exactly once, within three quiescent
// rounds. Programs over abstract objects {take, drop, retire, q, pause,
// resume} for 2-4 QSBR threads run under the deterministic scheduler; the
// oracles are evaluated at every free notification and after a drain.
#include "global.hpp"  // unodb: first

#include <set>

#include "heap.hpp"
#include "qsbr.hpp"

#include "../sched/sched_driver.hpp"

using namespace vsched;
using verif::vrng;

namespace {

constexpr std::uint64_t INF = ~0ULL;
constexpr int POOL = 4;

struct interval {
  std::uint64_t a, b;
};

struct tstate {
  bool registered = false;
  bool in_flight = false;  // inside pause/resume
  std::set<int> refs;
  std::vector<interval> qcalls;  // quiescent / pause calls (b == INF: in progress)
  std::vector<interval> reg;     // registration periods (b == INF: still registered)
};

struct ostate {
  void* p = nullptr;
  bool retire_invoked = false;
  std::uint64_t t_retire = 0;
  bool in_retire_call = false;
  int requester = -1;
  int freed = 0;
  bool orphaned_or_rotated = false;
};

struct world {
  std::vector<tstate> T;
  std::vector<ostate> O;
  std::string c05, c06;  // first violation messages
  bool free_with_two_registered = false;
  bool preempted_inside_qsbr = false;
  bool orphaned = false;
};

world* W = nullptr;

void fail05(const std::string& m) {
  if (W && W->c05.empty()) W->c05 = m;
}
void fail06(const std::string& m) {
  if (W && W->c06.empty()) W->c06 = m;
}

bool registered_at(const tstate& t, std::uint64_t when) {
  for (auto& r : t.reg)
    if (r.a <= when && when < r.b) return true;
  return false;
}

void on_free(void* p, std::size_t) noexcept {
  if (!W) return;
  auto& S = scheduler::get();
  for (std::size_t i = 0; i < W->O.size(); ++i) {
    auto& o = W->O[i];
    if (o.p != p) continue;
    if (!o.retire_invoked) {
      fail06("object " + std::to_string(i) + " was freed although nobody handed it to deferred deallocation");
      return;
    }
    if (++o.freed > 1) {
      fail06("object " + std::to_string(i) + " was freed twice");
      return;
    }
    const std::uint64_t now = S.now();
    int definitely_registered_others = 0;
    for (std::size_t t = 0; t < W->T.size(); ++t) {
      auto& ts = W->T[t];
      if (static_cast<int>(t) == o.requester) continue;
      // (i) reference oracle
      if (ts.refs.count(static_cast<int>(i)))
        fail05("object " + std::to_string(i) + " freed while thread " + std::to_string(t) +
               " holds a reference taken before the retire");
      // (ii) grace-period oracle (the literal statement)
      if (registered_at(ts, o.t_retire)) {
        bool passed = false;
        for (auto& q : ts.qcalls)
          if (q.b > o.t_retire) passed = true;  // in progress counts (b == INF)
        if (!passed)
          fail05("object " + std::to_string(i) + " freed although thread " + std::to_string(t) +
                 ", registered when the request was made, has not passed through a quiescent state, pause or exit since");
      }
      // definitely registered during the whole window [retire call, now]
      for (auto& r : ts.reg)
        if (r.a <= o.t_retire && r.b > now) ++definitely_registered_others;
    }
    // (iii) immediate execution only with at most one registered thread
    if (o.in_retire_call && definitely_registered_others > 0) {
      bool all_in_progress = true;  // covered by (ii) unless a quiescent call is in progress
      (void)all_in_progress;
      fail05("request for object " + std::to_string(i) + " was executed at once although " +
             std::to_string(definitely_registered_others + 1) + " threads were registered");
    }
    int reg_now = 0;
    for (auto& ts : W->T)
      if (ts.registered) ++reg_now;
    if (reg_now >= 2) W->free_with_two_registered = true;
    return;
  }
}

void retire_ptr(void* p) {
  unodb::this_thread().on_next_epoch_deallocate(p
#ifdef UNODB_DETAIL_WITH_STATS
                                                ,
                                                64
#endif
#ifndef NDEBUG
                                                ,
                                                nullptr
#endif
  );
}

struct sop {
  enum kind { TAKE, DROP, RETIRE, Q, PAUSE, RESUME, AWAIT } k;
  int obj;
  int cnt = 0;
};

struct qsbr_harness final : harness {
  std::string default_prop() override { return "C05"; }
  // a QSBR call that never returns under a fair schedule: the rounds of quiescent states C06 bounds the
  // reclamation by can never complete (and the drain never ends)
  std::string livelock_property() override { return "C06"; }
  std::string prop = "C05";

  void setup_process() override {
    auto& S = scheduler::get();
    unodb::this_thread().qsbr_pause();  // the main thread takes no part
    S.start_pool(POOL, [](std::function<void()> body) { new unodb::qsbr_thread(std::move(body)); });
    for (int i = 0; i < POOL; ++i) S.run_on(i, [] { unodb::this_thread().qsbr_pause(); });
    unodb::detail::verif::sched_hook.store(+[](unsigned k, const void* a) noexcept { scheduler::get().point(k, a); });
    unodb::detail::verif::free_hook.store(&on_free);
  }

  bool is_op_line(const std::string& l) override { return l.size() > 1 && l[0] == 't' && l[1] >= '0' && l[1] <= '9'; }

  // ---- generator ----------------------------------------------------------------
  static const char* opname(sop::kind k) {
    static const char* n[] = {"take", "drop", "retire", "q", "pause", "resume", "await"};
    return n[k];
  }

  std::string catalogue(std::uint64_t idx) {
    // scenarios around an epoch change racing with pause / resume
    static const char* cat[] = {
        // (await X n: wait until thread X completed n operations - scripts the
        // coarse order so that the preemption budget is spent inside the calls)
        // a thread leaves while another one joins during its epoch change (D5 shape)
        "threads 4 objects 1\ninit r r r p\nt0 q\nt0 take 0\nt0 await 3 3\nt1 await 0 2\nt1 q\nt1 retire 0\nt1 pause\n"
        "t2 await 1 4\nt2 pause\nt3 await 1 4\nt3 resume\nt3 await 2 2\nt3 q\n",
        // same, the leaving thread also has requests of its own pending
        "threads 4 objects 2\ninit r r r p\nt0 q\nt0 take 0\nt0 take 1\nt0 await 3 3\nt1 await 0 3\nt1 q\nt1 retire 0\nt1 pause\n"
        "t2 await 1 4\nt2 retire 1\nt2 pause\nt3 await 1 4\nt3 resume\nt3 await 2 3\nt3 q\n",
        // the paused thread itself re-joins while another one leaves
        "threads 3 objects 1\ninit r r r\nt0 q\nt0 take 0\nt0 await 1 7\nt1 await 0 2\nt1 q\nt1 retire 0\nt1 pause\nt1 resume\nt1 await 2 2\nt1 q\n"
        "t2 await 1 4\nt2 pause\n",
        // exit with pending requests while the last quiescent thread changes the epoch
        "threads 3 objects 2\ninit r r r\nt0 retire 0\nt0 q\nt0 pause\nt1 take 1\nt1 q\nt1 q\nt2 retire 1\nt2 q\nt2 q\n",
        // join during an epoch change
        "threads 3 objects 1\ninit r r p\nt0 take 0\nt0 q\nt0 q\nt1 retire 0\nt1 q\nt1 q\nt2 resume\nt2 q\nt2 pause\n",
        // two threads leaving, one staying
        "threads 3 objects 2\ninit r r r\nt0 retire 0\nt0 pause\nt1 retire 1\nt1 pause\nt2 take 0\nt2 take 1\nt2 q\nt2 q\nt2 q\n",
        // pause+resume cycles against quiescent states
        "threads 2 objects 2\ninit r r\nt0 take 0\nt0 q\nt0 take 1\nt0 q\nt1 retire 0\nt1 pause\nt1 resume\nt1 retire 1\nt1 pause\nt1 resume\nt1 q\n",
        // four threads, orphan hand-over racing with the epoch changer
        "threads 4 objects 2\ninit r r r r\nt0 retire 0\nt0 pause\nt1 retire 1\nt1 pause\nt2 q\nt2 q\nt3 take 0\nt3 q\nt3 q\n",
        "threads 3 objects 1\ninit r r r\nt0 q\nt0 take 0\nt1 retire 0\nt1 q\nt1 pause\nt2 q\nt2 pause\nt2 resume\nt2 q\n",
        // two leavers hand their requests over while a third thread changes the epoch twice
        "threads 4 objects 3\ninit r r r r\nt0 retire 0\nt0 await 2 1\nt0 pause\nt1 retire 1\nt1 await 2 1\nt1 pause\nt2 q\nt2 q\nt2 retire 2\nt2 q\nt3 take 0\nt3 take 1\nt3 q\nt3 q\n",
    };
    constexpr std::uint64_t n = sizeof cat / sizeof cat[0];
    return idx < n ? cat[idx] : "";
  }

  // Template family "threads exit / pause / resume / retire at every point of
  // an epoch change": thread 0 performs the epoch-changing operation; the
  // others prepare pending requests in chosen lists and are gated (await) so
  // that they act once thread 0 is about to start that operation - the
  // preemption budget is then spent INSIDE the epoch change.
  std::string gen_epoch_race(vrng& r) {
    const unsigned m = 1 + static_cast<unsigned>(r.below(3));  // other threads
    const unsigned T = m + 1;
    std::vector<std::string> lines[POOL];
    std::string init = "init r";
    unsigned nobj = 0;
    unsigned a_ops = 0;  // operations of thread 0 so far
    std::vector<bool> joiner(m + 1, false);
    for (unsigned i = 1; i <= m; ++i) {
      joiner[i] = r.chance(1, 5);
      init += joiner[i] ? " p" : " r";
    }
    auto add = [&](unsigned t, const std::string& op) { lines[t].push_back("t" + std::to_string(t) + " " + op); };
    // phase 1 (epoch e-1)
    std::vector<unsigned> x_ops(m + 1, 0);
    for (unsigned i = 1; i <= m; ++i) {
      if (joiner[i]) continue;
      if (r.chance(3, 4)) {
        add(i, "retire " + std::to_string(nobj++));
        ++x_ops[i];
      }
      if (r.chance(1, 4)) {
        add(i, "take " + std::to_string(r.below(nobj + 1)));
        ++x_ops[i];
      }
      add(i, "q");
      ++x_ops[i];
    }
    for (unsigned i = 1; i <= m; ++i)
      if (!joiner[i]) {
        add(0, "await " + std::to_string(i) + " " + std::to_string(x_ops[i]));
        ++a_ops;
      }
    if (r.chance(1, 3)) {
      add(0, "retire " + std::to_string(nobj++));
      ++a_ops;
    }
    add(0, "q");  // epoch e-1 -> e (if everybody quiesced)
    ++a_ops;
    // phase 2 (epoch e): observe, maybe retire again
    for (unsigned i = 1; i <= m; ++i) {
      if (joiner[i]) continue;
      add(i, "await 0 " + std::to_string(a_ops));
      ++x_ops[i];
      if (r.chance(4, 5)) {
        add(i, "q");
        ++x_ops[i];
      }
      if (r.chance(1, 2)) {
        add(i, "retire " + std::to_string(nobj++));
        ++x_ops[i];
      }
      if (r.chance(1, 5)) {
        add(i, "take " + std::to_string(r.below(nobj ? nobj : 1)));
        ++x_ops[i];
      }
    }
    for (unsigned i = 1; i <= m; ++i)
      if (!joiner[i]) {
        add(0, "await " + std::to_string(i) + " " + std::to_string(x_ops[i]));
        ++a_ops;
      }
    // gate: the others act once thread 0 is about to start its changing operation
    for (unsigned i = 1; i <= m; ++i) {
      add(i, "await 0 " + std::to_string(a_ops));
      const unsigned act = static_cast<unsigned>(r.below(10));
      if (joiner[i]) {
        add(i, "resume");
        if (r.chance(1, 2)) add(i, "q");
      } else if (act < 5) {
        add(i, "pause");
        if (r.chance(1, 3)) add(i, "resume");
      } else if (act < 7) {
        add(i, "q");
      } else if (act < 9) {
        add(i, "retire " + std::to_string(nobj++));
        if (r.chance(1, 2)) add(i, "pause");
      } else {
        add(i, "pause");
        add(i, "resume");
        add(i, "q");
      }
    }
    // the epoch-changing operation of thread 0
    if (r.chance(3, 4)) {
      add(0, "q");
    } else {
      add(0, "pause");
      if (r.chance(1, 2)) add(0, "resume");
    }
    if (r.chance(1, 2)) add(0, "q");
    if (nobj == 0) nobj = 1;
    std::string p = "threads " + std::to_string(T) + " objects " + std::to_string(nobj) + "\n" + init + "\n";
    for (unsigned t = 0; t < T; ++t)
      for (auto& l : lines[t]) p += l + "\n";
    return p;
  }

  std::string gen_program(std::uint64_t seed, std::uint64_t index, verif::stats* st) override {
    const std::string c = catalogue(index);
    if (!c.empty()) {
      if (st) st->inc("programs_catalogue");
      return c;
    }
    vrng r(verif::hash_combine(seed, index));
    if (r.chance(1, 2)) {
      if (st) st->inc("programs_epoch_change_race_template");
      return gen_epoch_race(r);
    }
    const unsigned T = 2 + static_cast<unsigned>(r.below(3));
    const unsigned NO = 1 + static_cast<unsigned>(r.below(3));
    std::string p = "threads " + std::to_string(T) + " objects " + std::to_string(NO) + "\ninit";
    for (unsigned t = 0; t < T; ++t) p += r.chance(1, 6) ? " p" : " r";
    p += "\n";
    const unsigned maxops = T == 2 ? 7 : (T == 3 ? 5 : 4);
    for (unsigned t = 0; t < T; ++t) {
      const unsigned n = 1 + static_cast<unsigned>(r.below(maxops));
      for (unsigned i = 0; i < n; ++i) {
        const unsigned w = static_cast<unsigned>(r.below(13));
        sop::kind k = w < 2 ? sop::TAKE : w < 3 ? sop::DROP : w < 6 ? sop::RETIRE : w < 9 ? sop::Q : w < 11 ? sop::PAUSE : sop::RESUME;
        p += "t" + std::to_string(t) + " " + opname(k);
        if (k == sop::TAKE || k == sop::RETIRE) p += " " + std::to_string(r.below(NO));
        p += "\n";
        if (k == sop::PAUSE && r.chance(2, 3)) p += "t" + std::to_string(t) + " resume\n";
      }
    }
    if (st) st->inc("programs_generated_threads_" + std::to_string(T));
    return p;
  }

  // ---- execution --------------------------------------------------------------------
  static std::uint64_t harness_thread_count() {
    // getter has a hook: do not make it a scheduling point
    const bool saved = scheduler::tls_active;
    scheduler::tls_active = false;
    const auto c = unodb::qsbr_state::get_thread_count(unodb::qsbr::instance().get_state());
    scheduler::tls_active = saved;
    return c;
  }

  exec_result execute(const std::string& program, strategy& strat, verif::stats* st) override {
    auto& S = scheduler::get();
    unsigned T = 2, NO = 1;
    std::vector<char> init;
    std::vector<std::vector<sop>> prog(POOL);
    {
      std::istringstream is(program);
      std::string line;
      while (std::getline(is, line)) {
        auto t = verif::split_ws(line);
        if (t.empty()) continue;
        if (t[0] == "threads" && t.size() >= 4) {
          T = static_cast<unsigned>(std::stoul(t[1]));
          NO = static_cast<unsigned>(std::stoul(t[3]));
        } else if (t[0] == "init") {
          for (std::size_t i = 1; i < t.size(); ++i) init.push_back(t[i][0]);
        } else if (is_op_line(t[0]) && t.size() >= 2) {
          const unsigned th = static_cast<unsigned>(t[0][1] - '0');
          if (th >= POOL) continue;
          sop o{sop::Q, 0, 0};
          if (t[1] == "take") o.k = sop::TAKE;
          else if (t[1] == "drop") o.k = sop::DROP;
          else if (t[1] == "retire") o.k = sop::RETIRE;
          else if (t[1] == "q") o.k = sop::Q;
          else if (t[1] == "pause") o.k = sop::PAUSE;
          else if (t[1] == "resume") o.k = sop::RESUME;
          else if (t[1] == "await") o.k = sop::AWAIT;
          else continue;
          if (t.size() >= 3) o.obj = std::atoi(t[2].c_str());
          if (t.size() >= 4) o.cnt = std::atoi(t[3].c_str());
          prog[th].push_back(o);
        }
      }
      if (T < 1) T = 1;
      if (T > POOL) T = POOL;
      if (NO < 1) NO = 1;
      if (NO > 12) NO = 12;
      while (init.size() < T) init.push_back('r');
    }
    exec_result res;
    res.prop = prop;
    // idle check (state isolation between executions)
    if (harness_thread_count() != 0 || !unodb::qsbr::instance().previous_interval_orphaned_requests_empty() ||
        !unodb::qsbr::instance().current_interval_orphaned_requests_empty()) {
      std::fprintf(stderr, "harness error: QSBR not idle at the start of an execution\n");
      std::fflush(nullptr);
      _exit(2);
    }
    world w;
    w.T.resize(T);
    w.O.resize(NO);
    for (auto& o : w.O) o.p = unodb::detail::allocate_aligned(64);
    W = &w;

    auto do_resume = [&](unsigned t) {
      auto& me = w.T[t];
      me.in_flight = true;
      unodb::this_thread().qsbr_resume();
      me.registered = true;
      me.reg.push_back({S.stamp(), INF});
      me.in_flight = false;
    };
    auto do_pause = [&](unsigned t) {
      auto& me = w.T[t];
      me.refs.clear();
      me.in_flight = true;
      const auto s0 = S.stamp();
      me.reg.back().b = s0;
      me.qcalls.push_back({s0, INF});
      me.registered = false;
      // requests still pending in this thread are orphaned by the pause
      for (auto& o : w.O)
        if (o.retire_invoked && o.freed == 0 && o.requester == static_cast<int>(t)) w.orphaned = true;
      unodb::this_thread().qsbr_pause();
      me.qcalls.back().b = S.stamp();
      me.in_flight = false;
    };
    auto do_q = [&](unsigned t) {
      auto& me = w.T[t];
      me.refs.clear();
      me.qcalls.push_back({S.stamp(), INF});
      unodb::this_thread().quiescent();
      me.qcalls.back().b = S.stamp();
    };
    auto check_count = [&]() {
      for (auto& ts : w.T)
        if (ts.in_flight) return;
      std::uint64_t expect = 0;
      for (auto& ts : w.T)
        if (ts.registered) ++expect;
      const auto got = harness_thread_count();
      if (got != expect)
        fail06("QSBR reports " + std::to_string(got) + " registered threads, " + std::to_string(expect) +
               " are started-or-resumed and not paused-or-exited (no start/exit/pause/resume in flight)");
    };

    // unscheduled prologue: initial registrations, in thread order
    for (unsigned t = 0; t < T; ++t)
      if (init[t] == 'r') S.run_on(static_cast<int>(t), [&, t] { do_resume(t); });

    std::vector<std::function<void()>> bodies;
    std::vector<int> ops_done(POOL, 0);
    std::vector<char> finished(POOL, 0);
    for (unsigned t = 0; t < T; ++t) {
      bodies.push_back([&, t] {
        auto& me = w.T[t];
        for (auto& o : prog[t]) {
          switch (o.k) {
            case sop::AWAIT: {
              // harness-level ordering: wait until thread <obj> completed <cnt> operations
              const int other = o.obj;
              const int need = o.cnt;
              if (other >= 0 && other < static_cast<int>(T) && other != static_cast<int>(t))
                S.block_until([&ops_done, &finished, other, need] {
                  return ops_done[static_cast<std::size_t>(other)] >= need || finished[static_cast<std::size_t>(other)];
                });
              break;
            }
            case sop::TAKE:
              if (me.registered && o.obj >= 0 && o.obj < static_cast<int>(NO) && !w.O[static_cast<std::size_t>(o.obj)].retire_invoked)
                me.refs.insert(o.obj);
              break;
            case sop::DROP:
              me.refs.clear();
              break;
            case sop::RETIRE:
              if (me.registered && o.obj >= 0 && o.obj < static_cast<int>(NO)) {
                auto& ob = w.O[static_cast<std::size_t>(o.obj)];
                if (ob.retire_invoked) break;
                ob.retire_invoked = true;
                ob.requester = static_cast<int>(t);
                me.refs.erase(o.obj);
                ob.t_retire = S.stamp();
                ob.in_retire_call = true;
                retire_ptr(ob.p);
                ob.in_retire_call = false;
              }
              break;
            case sop::Q:
              if (me.registered) do_q(t);
              break;
            case sop::PAUSE:
              if (me.registered) do_pause(t);
              break;
            case sop::RESUME:
              if (!me.registered) do_resume(t);
              break;
          }
          check_count();
          ++ops_done[t];
          S.op_boundary();
        }
        me.refs.clear();
        finished[t] = 1;
      });
    }
    S.run(bodies, strat);
    // was any preemption placed inside a qsbr call? (approximation: any preemption at all)
    w.preempted_inside_qsbr = S.preemptions() > 0;

    // ---- drain (deterministic, unscheduled) ------------------------------------------
    unsigned reg = 0;
    for (auto& ts : w.T)
      if (ts.registered) ++reg;
    check_count();
    if (reg >= 1) {
      for (int round = 0; round < 3; ++round)
        for (unsigned t = 0; t < T; ++t)
          if (w.T[t].registered) S.run_on(static_cast<int>(t), [&, t] { do_q(t); });
      for (std::size_t i = 0; i < w.O.size(); ++i)
        if (w.O[i].retire_invoked && w.O[i].freed != 1)
          fail06("object " + std::to_string(i) + " is still not freed after three consecutive rounds in which every registered thread passed a quiescent state");
    }
    // all but one unregister; the remaining thread quiesces twice
    for (unsigned t = 1; t < T; ++t)
      if (w.T[t].registered) S.run_on(static_cast<int>(t), [&, t] { do_pause(t); });
    if (!w.T[0].registered) S.run_on(0, [&] { do_resume(0); });
    check_count();
    S.run_on(0, [&] {
      do_q(0);
      do_q(0);
      if (!unodb::this_thread().previous_interval_requests_empty() || !unodb::this_thread().current_interval_requests_empty())
        fail06("the remaining thread still has pending requests after two quiescent states");
    });
    if (!unodb::qsbr::instance().previous_interval_orphaned_requests_empty() ||
        !unodb::qsbr::instance().current_interval_orphaned_requests_empty())
      fail06("orphaned requests are still pending after the last thread quiesced twice");
    for (std::size_t i = 0; i < w.O.size(); ++i)
      if (w.O[i].retire_invoked && w.O[i].freed != 1)
        fail06("object " + std::to_string(i) + " was freed " + std::to_string(w.O[i].freed) + " times after the final drain (lost request)");
    S.run_on(0, [&] { do_pause(0); });
    check_count();
    W = nullptr;
    for (auto& o : w.O)
      if (!o.retire_invoked) unodb::detail::free_aligned(o.p);

    const std::string& mine = prop == "C06" ? w.c06 : w.c05;
    if (!mine.empty()) {
      res.ok = false;
      res.msg = mine;
    }
    if (st) {
      if (!w.c05.empty() && prop != "C05") st->inc("other_property_failures_C05");
      if (!w.c06.empty() && prop != "C06") st->inc("other_property_failures_C06");
      if (w.free_with_two_registered) st->inc("executions_free_with_2plus_registered");
      if (w.orphaned) st->inc("executions_with_orphaned_request");
    }
    res.nontrivial = prop == "C06" ? w.orphaned : (w.free_with_two_registered && w.preempted_inside_qsbr);
    return res;
  }
};

}  // namespace

int main(int argc, char** argv) {
  qsbr_harness H;
  verif::args a(argc, argv);
  H.prop = a.str("prop", "C05");
  return sched_main(argc, argv, H);
}
