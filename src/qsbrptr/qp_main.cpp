// C17: qsbr_ptr / qsbr_ptr_span act as raw pointers / spans and track
// liveness exactly. Stateful generated sequences over a pool of wrapper slots
// and byte buffers are compared with a shadow model of raw pointers; the
// liveness verdict (quiescent state / pause rejected iff a non-null wrapper is
// alive) is probed in forked children after generated prefixes.
//
//   qp --seed S --cases N --out stats.json --fail-dir D      random sequences
//   qp --exhaustive --part I --parts N ...                   all sequences up to
//                                  length 4 over a reduced alphabet on 2 slots
//   qp --replay FILE
// Built twice: with assertions (liveness registry active) and with NDEBUG
// (results only; probes must never abort).
#include "global.hpp"  // unodb: first

#include <fcntl.h>
#include <sys/wait.h>
#include <unistd.h>

#include <iostream>
#include <optional>
#include <span>

#include "qsbr.hpp"
#include "qsbr_ptr.hpp"

#include "../common/vcommon.hpp"

using namespace verif;

namespace {

const int EXIT_VIOLATED = 42;
constexpr int NSLOT = 4, NBUF = 3, BUFLEN = 12, NSPAN = 2;
using T = const std::byte;
using qp = unodb::qsbr_ptr<T>;
using qs = unodb::qsbr_ptr_span<T>;

enum okind {
  CTOR_PTR, CTOR_NULL, CTOR_DEFAULT, COPY_CTOR, MOVE_CTOR, COPY_ASSIGN, MOVE_ASSIGN, PRE_INC, PRE_DEC, POST_INC, POST_DEC,
  ADD_ASSIGN, SUB_ASSIGN, PLUS, MINUS, NPLUS, DEREF, INDEX, ARROW, DIFF, COMPARE, DESTROY,
  SPAN_CTOR, SPAN_DEFAULT, SPAN_COPY, SPAN_MOVE, SPAN_COPY_ASSIGN, SPAN_MOVE_ASSIGN, SPAN_ITERATE, SPAN_DESTROY, PROBE_Q, PROBE_PAUSE, OK_COUNT
};
const char* okname[] = {"ctor", "ctornull", "default", "copy", "move", "copyassign", "moveassign", "preinc", "predec", "postinc", "postdec",
                        "addassign", "subassign", "plus", "minus", "nplus", "deref", "index", "arrow", "diff", "compare", "destroy",
                        "spanctor", "spandefault", "spancopy", "spanmove", "spancopyassign", "spanmoveassign", "spaniterate", "spandestroy",
                        "probeq", "probepause"};
struct qop {
  int k = 0, a = 0, b = 0, n = 0;  // slot a, slot/buffer b, offset/amount n
};

std::string op_text(const qop& o) {
  return std::string(okname[o.k]) + " " + std::to_string(o.a) + " " + std::to_string(o.b) + " " + std::to_string(o.n);
}
std::string seq_text(const std::vector<qop>& s) {
  std::string t;
  for (auto& o : s) t += op_text(o) + "\n";
  return t;
}
bool parse_seq(const std::string& text, std::vector<qop>& s) {
  std::istringstream is(text);
  std::string l;
  while (std::getline(is, l)) {
    auto t = split_ws(l);
    if (t.empty() || t[0][0] == '#') continue;
    qop o;
    o.k = -1;
    for (int i = 0; i < OK_COUNT; ++i)
      if (t[0] == okname[i]) o.k = i;
    if (o.k < 0 || t.size() < 4) return false;
    o.a = std::atoi(t[1].c_str());
    o.b = std::atoi(t[2].c_str());
    o.n = std::atoi(t[3].c_str());
    s.push_back(o);
  }
  return true;
}

std::byte bufs[NBUF][BUFLEN];

struct mslot {
  bool alive = false;
  T* p = nullptr;
  int buf = -1;  // buffer the pointer points into (-1: null)
};
struct mspan {
  bool alive = false;
  T* data = nullptr;
  std::size_t len = 0;
  // The state of a moved-from qsbr_ptr_span is not specified (qsbr_ptr documents "leaving it nullptr", the
  // span does not, and the statement speaks of the span "it was built from"): its pointer is OBSERVED - it may
  // be null or still the old one, which decides whether it counts as a live non-null wrapper - and its size
  // and contents are not checked until it is assigned to again. Copies of it inherit the flag.
  bool unspecified = false;
};

struct outcome {
  bool ok = true;
  std::string msg;
  int at = -1;
  bool nontrivial = false;
  unsigned probes = 0;
};

// liveness probe in a forked child: 0 accepted, 1 rejected (abort), -1 other
int probe(bool pause) {
  std::fflush(nullptr);
  const pid_t pid = fork();
  if (pid == 0) {
    const int dn = open("/dev/null", 1);
    if (dn >= 0) dup2(dn, 2);
    if (pause) {
      unodb::this_thread().qsbr_pause();
      unodb::this_thread().qsbr_resume();
    } else {
      unodb::this_thread().quiescent();
    }
    _exit(0);
  }
  int status = 0;
  waitpid(pid, &status, 0);
  if (WIFEXITED(status) && WEXITSTATUS(status) == 0) return 0;
  if (WIFSIGNALED(status) && WTERMSIG(status) == SIGABRT) return 1;
  return -1;
}

outcome run_seq(const std::vector<qop>& seq, stats* st) {
  outcome r;
  std::optional<qp> slot[NSLOT];
  mslot ms[NSLOT];
  std::optional<qs> span[NSPAN];
  mspan msp[NSPAN];
  auto fail = [&](int i, const std::string& m) {
    if (r.ok) {
      r.ok = false;
      r.msg = "op#" + std::to_string(i) + " " + op_text(seq[static_cast<std::size_t>(i)]) + ": " + m;
      r.at = i;
    }
  };
  auto observe_moved_from = [&](int sb, int i) {
    T* const old = msp[sb].data;
    T* const now = span[sb]->begin().get();
    if (now != nullptr && now != old) fail(i, "the moved-from span points to memory it was never given");
    msp[sb].data = now;
    msp[sb].unspecified = true;
  };
  auto in_range = [&](const mslot& s, long delta, bool deref) {
    if (s.buf < 0) return false;
    const long off = (s.p - bufs[s.buf]) + delta;
    return off >= 0 && (deref ? off < BUFLEN : off <= BUFLEN);
  };
  auto live_nonnull = [&] {
    int c = 0;
    for (auto& s : ms)
      if (s.alive && s.p != nullptr) ++c;
    for (auto& s : msp)
      if (s.alive && s.data != nullptr) ++c;
    return c;
  };
  bool moved_from_destroyed_later = false, assign_over_live = false, arith_between = false;
  for (std::size_t idx = 0; idx < seq.size() && r.ok; ++idx) {
    const qop& o = seq[idx];
    const int i = static_cast<int>(idx);
    const int a = ((o.a % NSLOT) + NSLOT) % NSLOT, b = ((o.b % NSLOT) + NSLOT) % NSLOT;
    const int sa = ((o.a % NSPAN) + NSPAN) % NSPAN, sb = ((o.b % NSPAN) + NSPAN) % NSPAN;
    switch (o.k) {
      case CTOR_PTR: {
        if (ms[a].alive) break;
        const int bf = ((o.b % NBUF) + NBUF) % NBUF;
        const int off = ((o.n % (BUFLEN + 1)) + BUFLEN + 1) % (BUFLEN + 1);
        T* p = bufs[bf] + off;
        slot[a].emplace(p);
        ms[a] = {true, p, bf};
        break;
      }
      case CTOR_NULL:
        if (ms[a].alive) break;
        slot[a].emplace(static_cast<T*>(nullptr));
        ms[a] = {true, nullptr, -1};
        break;
      case CTOR_DEFAULT:
        if (ms[a].alive) break;
        slot[a].emplace();
        ms[a] = {true, nullptr, -1};
        break;
      case COPY_CTOR:
        if (ms[a].alive || !ms[b].alive || a == b) break;
        slot[a].emplace(*slot[b]);
        ms[a] = ms[b];
        break;
      case MOVE_CTOR:
        if (ms[a].alive || !ms[b].alive || a == b) break;
        slot[a].emplace(std::move(*slot[b]));
        ms[a] = ms[b];
        ms[b].p = nullptr;
        ms[b].buf = -1;
        break;
      case COPY_ASSIGN:
        if (!ms[a].alive || !ms[b].alive || a == b) break;
        if (ms[a].p) assign_over_live = true;
        *slot[a] = *slot[b];
        ms[a].p = ms[b].p;
        ms[a].buf = ms[b].buf;
        break;
      case MOVE_ASSIGN:
        if (!ms[a].alive || !ms[b].alive || a == b) break;
        if (ms[a].p) assign_over_live = true;
        *slot[a] = std::move(*slot[b]);
        ms[a].p = ms[b].p;
        ms[a].buf = ms[b].buf;
        ms[b].p = nullptr;
        ms[b].buf = -1;
        break;
      case PRE_INC:
      case POST_INC:
        if (!ms[a].alive || !in_range(ms[a], 1, false)) break;
        if (o.k == PRE_INC) {
          qp& ref = ++*slot[a];
          if (&ref != &*slot[a]) fail(i, "++ did not return *this");
        } else {
          const qp old = (*slot[a])++;
          if (old.get() != ms[a].p) fail(i, "postfix ++ returned " + std::to_string(old.get() - ms[a].p) + " off");
        }
        ++ms[a].p;
        arith_between = true;
        break;
      case PRE_DEC:
      case POST_DEC:
        if (!ms[a].alive || !in_range(ms[a], -1, false)) break;
        if (o.k == PRE_DEC) {
          --*slot[a];
        } else {
          const qp old = (*slot[a])--;
          if (old.get() != ms[a].p) fail(i, "postfix -- returned a wrong pointer");
        }
        --ms[a].p;
        arith_between = true;
        break;
      case ADD_ASSIGN: {
        const long n = o.n % (BUFLEN + 1);
        if (!ms[a].alive || !in_range(ms[a], n, false)) break;
        *slot[a] += n;
        ms[a].p += n;
        arith_between = true;
        break;
      }
      case SUB_ASSIGN: {
        const long n = o.n % (BUFLEN + 1);
        if (!ms[a].alive || !in_range(ms[a], -n, false)) break;
        *slot[a] -= n;
        ms[a].p -= n;
        arith_between = true;
        break;
      }
      case PLUS:
      case NPLUS:
      case MINUS: {
        const long n = o.n % (BUFLEN + 1);
        const long d = o.k == MINUS ? -n : n;
        if (!ms[a].alive || !in_range(ms[a], d, false)) break;
        const qp tmp = o.k == PLUS ? (*slot[a] + n) : o.k == NPLUS ? (n + *slot[a]) : (*slot[a] - n);
        if (tmp.get() != ms[a].p + d) fail(i, "result differs from raw pointer arithmetic");
        if (slot[a]->get() != ms[a].p) fail(i, "operand was modified");
        break;
      }
      case DEREF:
        if (!ms[a].alive || !in_range(ms[a], 0, true)) break;
        if (&**slot[a] != ms[a].p || **slot[a] != *ms[a].p) fail(i, "dereference differs from the raw pointer");
        break;
      case ARROW:
        if (!ms[a].alive) break;
        if (slot[a]->operator->() != ms[a].p) fail(i, "operator-> differs from the raw pointer");
        break;
      case INDEX: {
        const long n = o.n % BUFLEN;
        if (!ms[a].alive || !in_range(ms[a], n, true)) break;
        if (&(*slot[a])[n] != ms[a].p + n) fail(i, "indexing differs from the raw pointer");
        break;
      }
      case DIFF:
        if (!ms[a].alive || !ms[b].alive || ms[a].buf < 0 || ms[a].buf != ms[b].buf) break;
        if ((*slot[a] - *slot[b]) != (ms[a].p - ms[b].p)) fail(i, "difference differs from raw pointer difference");
        break;
      case COMPARE: {
        if (!ms[a].alive || !ms[b].alive) break;
        const qp &x = *slot[a], &y = *slot[b];
        T *px = ms[a].p, *py = ms[b].p;
        if ((x == y) != (px == py) || (x != y) != (px != py)) fail(i, "== / != differ from raw pointers");
        if (ms[a].buf >= 0 && ms[a].buf == ms[b].buf) {
          if ((x < y) != (px < py) || (x > y) != (px > py) || (x <= y) != (px <= py) || (x >= y) != (px >= py))
            fail(i, "ordering comparison differs from raw pointers");
        }
        break;
      }
      case DESTROY:
        if (!ms[a].alive) break;
        if (ms[a].p == nullptr) moved_from_destroyed_later = true;
        slot[a].reset();
        ms[a] = {};
        break;
      case SPAN_CTOR: {
        if (msp[sa].alive) break;
        const int bf = ((o.b % (NBUF + 1)) + NBUF + 1) % (NBUF + 1);
        const std::size_t len = static_cast<std::size_t>(((o.n % (BUFLEN + 1)) + BUFLEN + 1) % (BUFLEN + 1));
        if (bf == NBUF) {  // null data, empty
          const std::span<T> sp{};
          span[sa].emplace(sp);
          msp[sa] = {true, nullptr, 0};
        } else {
          const std::span<T> sp{bufs[bf], len};
          span[sa].emplace(sp);
          msp[sa] = {true, bufs[bf], len};
        }
        break;
      }
      case SPAN_DEFAULT:
        if (msp[sa].alive) break;
        span[sa].emplace();
        msp[sa] = {true, nullptr, 0};
        break;
      case SPAN_COPY:
        if (msp[sa].alive || !msp[sb].alive || sa == sb) break;
        span[sa].emplace(*span[sb]);
        msp[sa] = msp[sb];
        break;
      case SPAN_MOVE:
        if (msp[sa].alive || !msp[sb].alive || sa == sb) break;
        span[sa].emplace(std::move(*span[sb]));
        msp[sa] = msp[sb];
        observe_moved_from(sb, i);
        break;
      case SPAN_COPY_ASSIGN:
        if (!msp[sa].alive || !msp[sb].alive || sa == sb) break;
        *span[sa] = *span[sb];
        msp[sa].data = msp[sb].data;
        msp[sa].len = msp[sb].len;
        msp[sa].unspecified = msp[sb].unspecified;
        break;
      case SPAN_MOVE_ASSIGN:
        if (!msp[sa].alive || !msp[sb].alive || sa == sb) break;
        *span[sa] = std::move(*span[sb]);
        msp[sa].data = msp[sb].data;
        msp[sa].len = msp[sb].len;
        msp[sa].unspecified = msp[sb].unspecified;
        observe_moved_from(sb, i);
        break;
      case SPAN_ITERATE: {
        if (msp[sa].alive && msp[sa].unspecified) break;
        if (!msp[sa].alive || msp[sa].data == nullptr) {
          if (msp[sa].alive && span[sa]->size() != msp[sa].len && msp[sa].data != nullptr) fail(i, "size() differs");
          break;
        }
        if (span[sa]->size() != msp[sa].len) fail(i, "size() differs from the span it was built from");
        std::size_t n = 0;
        for (auto it = span[sa]->begin(); it != span[sa]->end(); ++it, ++n) {
          if (n >= msp[sa].len || &*it != msp[sa].data + n) {
            fail(i, "iteration yields a different element sequence");
            break;
          }
        }
        if (n != msp[sa].len) fail(i, "iteration yields " + std::to_string(n) + " elements, expected " + std::to_string(msp[sa].len));
        break;
      }
      case SPAN_DESTROY:
        if (!msp[sa].alive) break;
        span[sa].reset();
        msp[sa] = {};
        break;
      case PROBE_Q:
      case PROBE_PAUSE: {
        const int got = probe(o.k == PROBE_PAUSE);
        ++r.probes;
#ifndef NDEBUG
        const int want = live_nonnull() > 0 ? 1 : 0;
        if (got != want)
          fail(i, std::string(o.k == PROBE_PAUSE ? "pause" : "quiescent state") + (got == 1 ? " was rejected" : got == 0 ? " was accepted" : " crashed") +
                      " with " + std::to_string(live_nonnull()) + " live non-null wrappers");
        if (st) st->inc(want ? "probes_expect_rejected" : "probes_expect_accepted");
#else
        if (got != 0) fail(i, "NDEBUG build: quiescent state / pause did not complete normally");
        if (st) st->inc("probes_ndebug");
#endif
        break;
      }
      default:
        break;
    }
    // invariant after every step: every live wrapper equals its shadow raw
    // pointer, every live span has the size and element sequence of its shadow
    if (r.ok && o.k != PROBE_Q && o.k != PROBE_PAUSE) {
      for (int k = 0; k < NSLOT && r.ok; ++k)
        if (ms[k].alive && slot[k]->get() != ms[k].p) fail(i, "afterwards wrapper slot " + std::to_string(k) + " no longer equals its raw pointer");
      for (int k = 0; k < NSPAN && r.ok; ++k) {
        if (!msp[k].alive) continue;
        if (msp[k].unspecified) {
          // moved-from (or a copy of one): only the pointer is tracked, by observation
          if (span[k]->begin().get() != msp[k].data) fail(i, "afterwards moved-from span " + std::to_string(k) + " changed its pointer without being assigned to");
          continue;
        }
        if (msp[k].data == nullptr) continue;  // default / null: size is unspecified by the statement
        if (span[k]->size() != msp[k].len) {
          fail(i, "afterwards span " + std::to_string(k) + " has size " + std::to_string(span[k]->size()) + ", the span it stands for has " + std::to_string(msp[k].len));
          break;
        }
        std::size_t n = 0;
        for (auto it = span[k]->begin(); it != span[k]->end(); ++it, ++n)
          if (n >= msp[k].len || &*it != msp[k].data + n) break;
        if (n != msp[k].len) fail(i, "afterwards span " + std::to_string(k) + " yields a different element sequence");
      }
    }
  }
  // clean up in an order that is fine for the model too
  for (auto& s : slot) s.reset();
  for (auto& s : span) s.reset();
  r.nontrivial = assign_over_live || moved_from_destroyed_later || arith_between;
  return r;
}

std::vector<qop> gen_seq(vrng& r, unsigned maxlen) {
  std::vector<qop> s;
  const unsigned n = 1 + static_cast<unsigned>(r.below(maxlen));
  const unsigned probe_every = 1 + static_cast<unsigned>(r.below(8));
  for (unsigned i = 0; i < n; ++i) {
    qop o;
    const unsigned w = static_cast<unsigned>(r.below(100));
    if (w < 14) o.k = CTOR_PTR;
    else if (w < 17) o.k = CTOR_NULL;
    else if (w < 20) o.k = CTOR_DEFAULT;
    else if (w < 26) o.k = COPY_CTOR;
    else if (w < 32) o.k = MOVE_CTOR;
    else if (w < 39) o.k = COPY_ASSIGN;
    else if (w < 46) o.k = MOVE_ASSIGN;
    else if (w < 66) o.k = static_cast<int>(PRE_INC + r.below(DESTROY - PRE_INC));  // arithmetic, deref, compare ...
    else if (w < 78) o.k = DESTROY;
    else if (w < 92) o.k = static_cast<int>(SPAN_CTOR + r.below(SPAN_DESTROY - SPAN_CTOR + 1));
    else o.k = r.chance(2, 3) ? PROBE_Q : PROBE_PAUSE;
    o.a = static_cast<int>(r.below(NSLOT));
    o.b = static_cast<int>(r.below(NSLOT + 1));
    o.n = static_cast<int>(r.below(BUFLEN + 1));
    if (o.k == SPAN_CTOR && r.chance(2, 3)) o.b = 0;  // several spans over one buffer (sub-spans sharing data())
    s.push_back(o);
    if (i % probe_every == probe_every - 1) {
      qop p;
      p.k = r.chance(3, 4) ? PROBE_Q : PROBE_PAUSE;
      s.push_back(p);
    }
  }
  qop p;
  p.k = PROBE_Q;
  s.push_back(p);
  return s;
}

int report(const std::string& fail_dir, const std::string& name, std::vector<qop> s, const std::string& out, stats& st) {
  // shrink: drop ops
  bool progress = true;
  while (progress) {
    progress = false;
    for (std::size_t j = 0; j < s.size(); ++j) {
      auto c = s;
      c.erase(c.begin() + static_cast<long>(j));
      if (!c.empty() && !run_seq(c, nullptr).ok) {
        s = c;
        progress = true;
        break;
      }
    }
  }
  auto r2 = run_seq(s, nullptr);
  const std::string path = fail_dir + "/C17_" + name + ".txt";
  write_file(path, "# property C17 violated: " + r2.msg + "\n" + seq_text(s));
  if (!out.empty()) st.write(out);
  std::cout << "FAILURE " << path << " :: " << r2.msg << "\n";
  return 1;
}

}  // namespace

int main(int argc, char** argv) {
  args a(argc, argv);
  for (int b = 0; b < NBUF; ++b)
    for (int i = 0; i < BUFLEN; ++i) bufs[b][i] = static_cast<std::byte>(b * 64 + i);
  const std::string out = a.str("out", ""), fail_dir = a.str("fail-dir", ".");
  stats st;
  if (a.has("replay")) {
    std::vector<qop> s;
    if (!parse_seq(read_file(a.str("replay")), s)) return 2;
    auto r = run_seq(s, nullptr);
    if (!r.ok) {
      std::cout << "FAIL C17 " << r.msg << "\n";
      return EXIT_VIOLATED;
    }
    std::cout << "PASS\n";
    return 0;
  }
  if (a.has("exhaustive")) {
    // all sequences up to length 4 over a reduced alphabet on 2 slots / 1 buffer, probe after every op
    std::vector<qop> alpha;
    auto add = [&](int k, int x, int y, int n) {
      qop o;
      o.k = k;
      o.a = x;
      o.b = y;
      o.n = n;
      alpha.push_back(o);
    };
    for (int x = 0; x < 2; ++x) {
      add(CTOR_PTR, x, 0, 3);
      add(CTOR_NULL, x, 0, 0);
      add(CTOR_DEFAULT, x, 0, 0);
      add(COPY_CTOR, x, 1 - x, 0);
      add(MOVE_CTOR, x, 1 - x, 0);
      add(COPY_ASSIGN, x, 1 - x, 0);
      add(MOVE_ASSIGN, x, 1 - x, 0);
      add(PRE_INC, x, 0, 0);
      add(ADD_ASSIGN, x, 0, 2);
      add(DESTROY, x, 0, 0);
    }
    add(SPAN_CTOR, 0, 0, 4);
    add(SPAN_CTOR, 1, 0, 2);
    add(SPAN_COPY_ASSIGN, 0, 1, 0);
    add(SPAN_COPY_ASSIGN, 1, 0, 0);
    add(SPAN_MOVE_ASSIGN, 0, 1, 0);
    add(SPAN_COPY, 1, 0, 0);
    add(SPAN_MOVE, 1, 0, 0);
    add(SPAN_DESTROY, 0, 0, 0);
    add(SPAN_DESTROY, 1, 0, 0);
    const std::uint64_t part = a.u64("part", 0), parts = a.u64("parts", 1);
    const std::size_t A = alpha.size();
    std::uint64_t total = 0, count = 0;
    for (unsigned len = 1; len <= 4; ++len) {
      std::uint64_t n = 1;
      for (unsigned i = 0; i < len; ++i) n *= A;
      for (std::uint64_t x = 0; x < n; ++x, ++total) {
        if (total % parts != part) continue;
        std::vector<qop> s;
        std::uint64_t y = x;
        for (unsigned i = 0; i < len; ++i) {
          s.push_back(alpha[y % A]);
          y /= A;
        }
        // probe only after the last op (prefixes are sequences of their own)
        qop p;
        p.k = PROBE_Q;
        s.push_back(p);
        auto r = run_seq(s, &st);
        ++count;
        st.inc("probes", r.probes);
        if (r.nontrivial) st.add_nontrivial(hash_str(seq_text(s)));
        if (!r.ok) return report(fail_dir, "exh_" + std::to_string(total), s, out, st);
      }
    }
    st.inc("cases", count);
    st.inc("exhaustive_sequences", count);
    st.inc("exhaustive_alphabet", part == 0 ? A : 0);
    if (!out.empty()) st.write(out);
    return 0;
  }
  const std::uint64_t seed = a.u64("seed", 1), cases = a.u64("cases", 100);
  const unsigned maxlen = static_cast<unsigned>(a.u64("maxlen", 60));
  for (std::uint64_t i = 0; i < cases; ++i) {
    vrng r(hash_combine(seed, i));
    auto s = gen_seq(r, maxlen);
    auto res = run_seq(s, &st);
    st.inc("cases");
    st.inc("ops", s.size());
    st.inc("probes", res.probes);
    if (res.nontrivial) st.add_nontrivial(hash_str(seq_text(s)));
    if (i < 3) st.add_sample(seq_text(s).substr(0, 600));
    if (!res.ok) return report(fail_dir, "seed" + std::to_string(seed) + "_case" + std::to_string(i), s, out, st);
  }
  if (!out.empty()) st.write(out);
  return 0;
}
