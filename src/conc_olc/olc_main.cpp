// C03 / C04 / C09 / C14 (and the concurrent part of C10): olc_db under the
// deterministic scheduler. Programs = initial tree + 2-3 threads of
// get/insert/remove/scan operations with explicit quiescent-state placement;
// oracles: per-key linearizability (C03), held views / exactly-once
// reclamation / post-run sweep under ASan (C04), scan order-bounds-validity-
// completeness (C09), deadlock / lock-left-behind / bounded progress (C14),
// shape + accounting after the drained concurrent phase (C10).
#include "global.hpp"  // unodb: first

#include <array>
#include <functional>
#include <map>
#include <set>
#include <unordered_map>

#include "olc_art.hpp"
#include "qsbr.hpp"

#include "../common/model.hpp"
#include "../sched/sched_driver.hpp"

using namespace vsched;
using verif::be_to_u64;
using verif::from_hex;
using verif::kvmap;
using verif::to_hex;
using verif::u64_to_be;
using verif::vrng;

namespace {

constexpr int POOL = 3;
template <class Key>
using db_for = unodb::olc_db<Key, unodb::value_view>;

// keys in programs are 8 bytes (binary comparable); as byte strings they are a
// fixed-length, hence prefix-free, set whose compressed paths never exceed 7
template <class Key>
Key mk_key(const std::string& b) {
  if constexpr (std::is_same_v<Key, std::uint64_t>) {
    return be_to_u64(b);
  } else {
    return unodb::key_view{reinterpret_cast<const std::byte*>(b.data()), b.size()};
  }
}

// ---- allocation tracking -------------------------------------------------------
struct tracker {
  std::unordered_map<void*, std::size_t> live;
  std::size_t live_bytes = 0;
  bool tracking = false;
  std::string violation;
  std::uint64_t frees_during_run = 0;
  bool in_scheduled_run = false;
};
tracker TR;

void on_alloc(void* p, std::size_t n) noexcept {
  if (!TR.tracking) return;
  TR.live[p] = n;
  TR.live_bytes += n;
}
void on_free(void* p, std::size_t) noexcept {
  if (!TR.tracking) return;
  auto it = TR.live.find(p);
  if (it == TR.live.end()) return;  // not a tree block (e.g. iterator key buffer before tracking)
  TR.live_bytes -= it->second;
  TR.live.erase(it);
  if (TR.in_scheduled_run) ++TR.frees_during_run;
}

bool sweep_mode = false;
std::uint64_t sweep_steps = 0;

void sched_cb(unsigned k, const void* a) noexcept {
  if (sweep_mode && k != 7 && ++sweep_steps > 4000000) {
    // a normal sweep takes a few thousand hooked accesses: an operation restarts forever
    std::printf("FAIL C14 the single-threaded sweep after the execution does not terminate: an operation restarts forever although nothing else runs\n");
    std::fflush(nullptr);
    _exit(EXIT_LIVELOCK);
  }
  if (sweep_mode && k == 7) {
    // single-threaded sweep reached a spin-wait: a lock was left behind
    std::printf("FAIL C14 a node or root lock was left locked: the single-threaded sweep after the execution spins\n");
    std::fflush(nullptr);
    _exit(EXIT_DEADLOCK);
  }
  scheduler::get().point(k, a);
}

enum okind { O_GET, O_INS, O_REM, O_SCAN, O_SCANFROM, O_SCANRANGE, O_Q, O_AWAIT };
struct pop {
  okind k = O_GET;
  std::string key, key2;  // 8-byte BE
  std::uint32_t vseed = 0;
  bool fwd = true;
  int halt = -1;
  int other = 0, cnt = 0;
  // recorded
  std::uint64_t call = 0, ret = 0;
  bool res = false;
  std::string val;                                       // get hit
  std::vector<std::pair<std::string, std::string>> out;  // scan
  bool executed = false;
};

std::string value_of(std::uint32_t vseed) { return verif::make_value(vseed, 6 + vseed % 5); }
std::uint32_t init_vseed(const std::string& key) { return static_cast<std::uint32_t>(verif::hash_str(key) & 0xffffff) | 0x1000000; }

struct held_view {
  const std::byte* p;
  std::size_t n;
  std::string copy;
  // the library's own view object is kept alive until the holder's next quiescent state, as a caller may:
  // in assertion-enabled builds it is a registered active pointer, so a quiescent state announced for this
  // thread while the view is alive - e.g. by the index itself, inside an operation - trips the library's
  // "no active pointers" assertion
  unodb::qsbr_value_view view;
};

struct olc_harness final : harness {
  std::string prop = "C03";
  std::string shape;  // "pairs": two threads x one operation (full 2-preemption search fits the cap)
  std::string default_prop() override { return "C03"; }

  void setup_process() override {
    auto& S = scheduler::get();
    S.start_pool(POOL, [](std::function<void()> body) { new unodb::qsbr_thread(std::move(body)); });
    for (int i = 0; i < POOL; ++i) S.run_on(i, [] { unodb::this_thread().qsbr_pause(); });
    unodb::this_thread().qsbr_pause();
    unodb::detail::verif::sched_hook.store(&sched_cb);
    unodb::detail::verif::alloc_hook.store(&on_alloc);
    unodb::detail::verif::free_hook.store(&on_free);
  }

  bool is_op_line(const std::string& l) override { return l.size() > 1 && l[0] == 't' && l[1] >= '0' && l[1] <= '9'; }

  // ---- generator -------------------------------------------------------------------
  // A "focus node" with a chosen fan-out (at a size-class boundary) below a
  // shared prefix, some deeper structure under a few of its children and an
  // unrelated sibling branch; operations insert / remove / get children of
  // the focus node and keys around it, so that the structural changes happen
  // under contention.
  std::string gen_program(std::uint64_t seed, std::uint64_t index, verif::stats* st) override {
    vrng r(verif::hash_combine(seed, index));
    const bool scans = prop == "C09" || (prop == "C04" && r.chance(1, 3)) || (prop == "C14" && r.chance(1, 3));
    // "nested": minimal pairs in which one thread changes the focus node structurally and the other its
    // direct parent (both at a size-class boundary)
    const bool nested_shape = shape == "nested";
    const bool pairs = shape == "pairs" || nested_shape;
    const unsigned T = pairs ? 2 : (r.chance(3, 5) ? 2 : 3);
    static const unsigned fans[] = {1, 2, 2, 2, 3, 4, 4, 5, 5, 16, 17, 48, 49};
    unsigned fan = fans[(index % 13 + r.below(2)) % 13];
    if (nested_shape) {
      static const unsigned nfans[] = {4, 16, 48, 4, 16, 5, 17, 49, 2};
      fan = nfans[r.below(sizeof nfans / sizeof nfans[0])];
    }
    unsigned depth = static_cast<unsigned>(r.below(3));   // inner levels above the focus node
    if (nested_shape && depth == 0) depth = 1;
    const unsigned plen = static_cast<unsigned>(r.below(4));    // compressed path inside
    // key layout: [top bytes (depth levels)] [prefix plen bytes] [focus byte] [tail...]
    std::string base(8, '\0');
    for (auto& c : base) c = static_cast<char>(r.below(256));
    const unsigned fpos = std::min(6u, depth + plen);  // position of the focus byte
    std::set<std::string> uni, init;
    std::vector<unsigned> child_bytes;
    {
      std::set<unsigned> cb;
      while (cb.size() < fan + 2) cb.insert(static_cast<unsigned>(r.below(256)));
      child_bytes.assign(cb.begin(), cb.end());
      // shuffle
      for (std::size_t i = child_bytes.size(); i > 1; --i) std::swap(child_bytes[i - 1], child_bytes[r.below(i)]);
    }
    auto mk = [&](unsigned fb, unsigned tail) {
      std::string k = base;
      k[fpos] = static_cast<char>(fb);
      if (tail) k[7] = static_cast<char>(static_cast<unsigned char>(k[7]) + tail), k[fpos + 1 > 7 ? 7 : fpos + 1] = static_cast<char>(tail * 37);
      return k;
    };
    // children of the focus node: first `fan` bytes are initially present
    for (unsigned i = 0; i < child_bytes.size(); ++i) {
      const std::string k = mk(child_bytes[i], 0);
      uni.insert(k);
      if (i < fan) init.insert(k);
    }
    // deeper structure under up to two children (inner children below the focus node)
    if (fpos < 6) {
      const unsigned deep = static_cast<unsigned>(r.below(3));
      for (unsigned d = 0; d < deep && d < fan; ++d)
        for (unsigned t = 1; t <= 1 + r.below(2); ++t) {
          const std::string k = mk(child_bytes[d], t);
          uni.insert(k);
          if (r.chance(2, 3)) init.insert(k);
        }
    }
    // nested boundary (decided here, used below): the DIRECT parent of the focus node branches at byte ppos
    const bool nested = fpos >= 1 && (nested_shape || r.chance(1, 3));
    const unsigned ppos = !nested ? 0 : (r.chance(1, 2) ? fpos - 1 : static_cast<unsigned>(r.below(fpos)));
    // sibling branches above the focus node (diverge inside the prefix / at upper levels)
    for (unsigned lvl = 0; lvl < fpos && lvl < 3; ++lvl) {
      if (!r.chance(2, 3)) continue;
      if (nested && lvl >= ppos) continue;  // keep the parent's fan-out exact and the parent direct
      std::string k = base;
      k[lvl] = static_cast<char>(static_cast<unsigned char>(k[lvl]) ^ (1 + r.below(255)));
      uni.insert(k);
      if (r.chance(1, 2)) init.insert(k);
      if (r.chance(1, 3)) {
        std::string k2 = k;
        k2[7] = static_cast<char>(k2[7] + 1);
        uni.insert(k2);
        if (r.chance(1, 2)) init.insert(k2);
      }
    }
    // nested boundary: in a third of the programs the PARENT of the focus node also sits at a size-class
    // boundary (the focus subtree plus pf-1 leaves under it), with absent siblings at that level, so that
    // a structural change of the parent can race with a structural change of the focus node
    std::vector<std::string> parent_present, parent_absent;
    unsigned pf = 0;
    if (nested) {
      static const unsigned pfans[] = {2, 3, 4, 4, 5, 16, 17};
      pf = pfans[r.below(sizeof pfans / sizeof pfans[0])];
      std::set<unsigned> pb;
      while (pb.size() < pf + 1) {
        const unsigned b = static_cast<unsigned>(r.below(256));
        if (b != static_cast<unsigned char>(base[ppos])) pb.insert(b);
      }
      unsigned idx = 0;
      for (unsigned b : pb) {
        std::string k = base;
        k[ppos] = static_cast<char>(b);
        uni.insert(k);
        if (idx + 1 < pf) {  // pf-1 present siblings + the focus branch = pf children
          init.insert(k);
          parent_present.push_back(k);
        } else {
          parent_absent.push_back(k);
        }
        ++idx;
      }
    }
    if (r.chance(1, 12)) init.clear();  // empty tree: root creation / removal races
    std::vector<std::string> U(uni.begin(), uni.end());
    std::string p = "threads " + std::to_string(T) + "\n";
    p += std::string("qmode ") + (r.chance(1, 2) ? "every" : "end") + "\n";
    p += std::string("keys ") + (r.chance(1, 3) ? "kv" : "u64") + "\ninit";
    for (auto& k : init) p += " " + to_hex(k);
    p += "\n";
    std::uint32_t vseed = 1 + static_cast<std::uint32_t>(r.below(1000)) * 16;
    // focus keys: present children (removal => shrink / collapse) and absent children (insert => growth / split)
    std::vector<std::string> present_children, absent_children;
    for (unsigned i = 0; i < child_bytes.size(); ++i) (i < fan ? present_children : absent_children).push_back(mk(child_bytes[i], 0));
    unsigned scanners = 0;
    for (unsigned t = 0; t < T; ++t) {
      const unsigned n = pairs ? 1 : 1 + static_cast<unsigned>(r.below(T == 2 ? 3 : 2));
      const bool scanner = scans && (scanners == 0 ? (t == 0 || r.chance(1, 2)) : r.chance(1, 4));
      if (scanner) ++scanners;
      for (unsigned i = 0; i < n; ++i) {
        std::string l = "t" + std::to_string(t) + " ";
        if (scanner && (i == 0 || r.chance(1, 2))) {
          const unsigned sk = static_cast<unsigned>(r.below(4));
          const int halt = r.chance(1, 4) ? static_cast<int>(1 + r.below(4)) : -1;
          if (sk == 0) l += "scan " + std::to_string(r.below(2)) + " " + std::to_string(halt);
          else if (sk <= 2) l += "scanfrom " + to_hex(r.pick(U)) + " " + std::to_string(r.below(2)) + " " + std::to_string(halt);
          else l += "scanrange " + to_hex(r.pick(U)) + " " + to_hex(r.pick(U)) + " " + std::to_string(halt);
        } else if (nested_shape && !parent_present.empty() && r.chance(4, 5)) {
          // t0: structural change of the focus node; t1: structural change of its parent
          if (t == 0) {
            if ((fan == 4 || fan == 16 || fan == 48) && !absent_children.empty()) l += "ins " + to_hex(r.pick(absent_children)) + " " + std::to_string(vseed++);
            else l += "rem " + to_hex(r.pick(present_children));
          } else {
            if ((pf == 4 || pf == 16) && !parent_absent.empty()) l += "ins " + to_hex(r.pick(parent_absent)) + " " + std::to_string(vseed++);
            else l += "rem " + to_hex(r.pick(parent_present));
          }
        } else {
          const unsigned w = static_cast<unsigned>(r.below(10));
          if (w < 3) {
            l += "get " + to_hex(r.chance(2, 3) && !init.empty() ? *std::next(init.begin(), static_cast<long>(r.below(init.size()))) : r.pick(U));
          } else if (w < 6) {
            std::string k = (r.chance(2, 3) && !absent_children.empty()) ? r.pick(absent_children) : r.pick(U);
            if (!parent_absent.empty() && r.chance(1, 3)) k = r.pick(parent_absent);
            l += "ins " + to_hex(k) + " " + std::to_string(vseed++);
          } else {
            std::string k = (r.chance(2, 3) && !present_children.empty()) ? r.pick(present_children) : r.pick(U);
            if (!parent_present.empty() && r.chance(1, 3)) k = r.pick(parent_present);
            l += "rem " + to_hex(k);
          }
        }
        p += l + "\n";
      }
    }
    if (st) {
      st->inc(p.find("\nkeys kv") != std::string::npos ? "keykind_byte_string_programs" : "keykind_uint64_programs");
      st->inc("programs_threads_" + std::to_string(T));
      st->inc("programs_focus_fanout_" + std::to_string(fan));
      if (scanners) st->inc("programs_with_scanner");
      if (!parent_present.empty()) st->inc("programs_with_parent_at_boundary");
    }
    return p;
  }

  // ---- oracles ----------------------------------------------------------------------
  // per-key linearizability (Wing-Gong search); state = absent | present(value)
  static bool lin_key(std::vector<const pop*> ops, bool present, std::string val) {
    if (ops.empty()) return true;
    std::uint64_t minret = ~0ULL;
    for (auto* o : ops) minret = std::min(minret, o->ret);
    for (std::size_t i = 0; i < ops.size(); ++i) {
      const pop* o = ops[i];
      if (o->call > minret) continue;  // some other op returned before this one was called
      bool ok, np = present;
      std::string nv = val;
      if (o->k == O_GET) {
        ok = (o->res == present) && (!present || o->val == val);
      } else if (o->k == O_INS) {
        ok = (o->res == !present);
        if (o->res) {
          np = true;
          nv = value_of(o->vseed);
        }
      } else {
        ok = (o->res == present);
        if (o->res) np = false;
      }
      if (!ok) continue;
      auto rest = ops;
      rest.erase(rest.begin() + static_cast<long>(i));
      if (lin_key(rest, np, nv)) return true;
    }
    return false;
  }

  exec_result execute(const std::string& program, strategy& strat, verif::stats* st) override {
    if (program.find("\nkeys kv") != std::string::npos) return execute_t<unodb::key_view>(program, strat, st);
    return execute_t<std::uint64_t>(program, strat, st);
  }

  template <class Key>
  exec_result execute_t(const std::string& program, strategy& strat, verif::stats* st) {
    using db_t = db_for<Key>;
    auto& S = scheduler::get();
    unsigned T = 2;
    bool q_every = true;
    std::vector<std::string> init;
    std::vector<std::vector<pop>> prog(POOL);
    {
      std::istringstream is(program);
      std::string line;
      while (std::getline(is, line)) {
        auto t = verif::split_ws(line);
        if (t.empty()) continue;
        if (t[0] == "threads" && t.size() > 1) T = static_cast<unsigned>(std::stoul(t[1]));
        else if (t[0] == "qmode" && t.size() > 1) q_every = t[1] == "every";
        else if (t[0] == "init") {
          for (std::size_t i = 1; i < t.size(); ++i) init.push_back(from_hex(t[i]));
        } else if (is_op_line(t[0]) && t.size() >= 2) {
          const unsigned th = static_cast<unsigned>(t[0][1] - '0');
          if (th >= POOL) continue;
          pop o;
          if (t[1] == "get" && t.size() >= 3) { o.k = O_GET; o.key = from_hex(t[2]); }
          else if (t[1] == "ins" && t.size() >= 4) { o.k = O_INS; o.key = from_hex(t[2]); o.vseed = static_cast<std::uint32_t>(std::stoul(t[3])); }
          else if (t[1] == "rem" && t.size() >= 3) { o.k = O_REM; o.key = from_hex(t[2]); }
          else if (t[1] == "scan" && t.size() >= 4) { o.k = O_SCAN; o.fwd = t[2] == "1"; o.halt = std::stoi(t[3]); }
          else if (t[1] == "scanfrom" && t.size() >= 5) { o.k = O_SCANFROM; o.key = from_hex(t[2]); o.fwd = t[3] == "1"; o.halt = std::stoi(t[4]); }
          else if (t[1] == "scanrange" && t.size() >= 5) { o.k = O_SCANRANGE; o.key = from_hex(t[2]); o.key2 = from_hex(t[3]); o.halt = std::stoi(t[4]); }
          else if (t[1] == "q") { o.k = O_Q; }
          else if (t[1] == "await" && t.size() >= 4) { o.k = O_AWAIT; o.other = std::atoi(t[2].c_str()); o.cnt = std::atoi(t[3].c_str()); }
          else continue;
          prog[th].push_back(o);
        }
      }
      if (T < 1) T = 1;
      if (T > POOL) T = POOL;
    }
    exec_result res;
    res.prop = prop;
    std::string v03, v04, v09, v10, v14;

    // ---- build the initial tree (main thread, single-thread mode) -----------------
    unodb::this_thread().qsbr_resume();
    TR.live.clear();
    TR.live_bytes = 0;
    TR.violation.clear();
    TR.frees_during_run = 0;
    TR.tracking = true;
    auto* db = new db_t;
    kvmap initial;
    for (auto& k : init) {
      const std::string v = value_of(init_vseed(k));
      if (db->insert(mk_key<Key>(k), unodb::value_view{reinterpret_cast<const std::byte*>(v.data()), v.size()})) initial[k] = v;
    }
#ifdef UNODB_DETAIL_WITH_STATS
    const auto grow0 = db->get_growing_inode_counts();
    const auto shrink0 = db->get_shrinking_inode_counts();
    const auto splits0 = db->get_key_prefix_splits();
#endif
    unodb::this_thread().quiescent();
    unodb::this_thread().qsbr_pause();
    for (unsigned t = 0; t < T; ++t) S.run_on(static_cast<int>(t), [] { unodb::this_thread().qsbr_resume(); });

    std::vector<std::vector<held_view>> held(T);
    auto recheck_held = [&](unsigned t) {
      for (auto& h : held[t])
        if (h.n != h.copy.size() || (h.n != 0 && std::memcmp(h.p, h.copy.data(), h.n) != 0)) {
          if (v04.empty()) v04 = "value bytes handed to thread " + std::to_string(t) + " changed before its next quiescent state";
        }
      held[t].clear();
    };
    std::vector<int> ops_done(POOL, 0);
    std::vector<char> finished(POOL, 0);
    std::vector<std::function<void()>> bodies;
    for (unsigned t = 0; t < T; ++t) {
      bodies.push_back([&, t] {
        for (auto& o : prog[t]) {
          switch (o.k) {
            case O_AWAIT: {
              const int other = o.other, need = o.cnt;
              if (other >= 0 && other < static_cast<int>(T) && other != static_cast<int>(t))
                S.block_until([&ops_done, &finished, other, need] {
                  return ops_done[static_cast<std::size_t>(other)] >= need || finished[static_cast<std::size_t>(other)];
                });
              break;
            }
            case O_Q:
              recheck_held(t);
              unodb::this_thread().quiescent();
              break;
            case O_GET: {
              o.call = S.stamp();
              {
                const auto r = db->get(mk_key<Key>(o.key));
                o.res = r.has_value();
                if (o.res) {
                  const std::byte* p = r->begin().get();
                  o.val.assign(reinterpret_cast<const char*>(p), r->size());
                  held[t].push_back({p, r->size(), o.val, *r});
                }
              }
              o.ret = S.stamp();
              o.executed = true;
              break;
            }
            case O_INS: {
              const std::string v = value_of(o.vseed);
              o.call = S.stamp();
              o.res = db->insert(mk_key<Key>(o.key), unodb::value_view{reinterpret_cast<const std::byte*>(v.data()), v.size()});
              o.ret = S.stamp();
              o.executed = true;
              break;
            }
            case O_REM:
              o.call = S.stamp();
              o.res = db->remove(mk_key<Key>(o.key));
              o.ret = S.stamp();
              o.executed = true;
              break;
            case O_SCAN:
            case O_SCANFROM:
            case O_SCANRANGE: {
              bool halted = false;
              unsigned after_halt = 0;
              auto fn = [&](const auto& vis) {
                if (halted) {
                  ++after_halt;
                  return true;
                }
                const auto kk = vis.get_key();
                std::string ks(reinterpret_cast<const char*>(kk.data()), kk.size());
                const auto vv = vis.get_value();
                const std::byte* vp = vv.begin().get();
                std::string vs(reinterpret_cast<const char*>(vp), vv.size());
                held[t].push_back({vp, vv.size(), vs, vv});
                o.out.emplace_back(std::move(ks), std::move(vs));
                // the visitor boundary is a scheduling point: writers may run "between two entries"
                S.op_boundary();
                if (o.halt > 0 && static_cast<int>(o.out.size()) >= o.halt) {
                  halted = true;
                  return true;
                }
                return false;
              };
              o.call = S.stamp();
              if (o.k == O_SCAN) db->scan(fn, o.fwd);
              else if (o.k == O_SCANFROM) db->scan_from(mk_key<Key>(o.key), fn, o.fwd);
              else db->scan_range(mk_key<Key>(o.key), mk_key<Key>(o.key2), fn);
              o.ret = S.stamp();
              o.executed = true;
              if (after_halt && v09.empty()) v09 = "the visitor was called again after it returned true";
              break;
            }
          }
          ++ops_done[t];
          if (q_every && o.k != O_AWAIT && o.k != O_Q) {
            recheck_held(t);
            unodb::this_thread().quiescent();
          }
          S.op_boundary();
        }
        recheck_held(t);
        unodb::this_thread().quiescent();
        finished[t] = 1;
      });
    }
    TR.in_scheduled_run = true;
    S.run(bodies, strat);
    TR.in_scheduled_run = false;
    const unsigned spins = S.spins(), preempts = S.preemptions();

    // ---- drain -----------------------------------------------------------------------
    for (unsigned t = 0; t < T; ++t) S.run_on(static_cast<int>(t), [] { unodb::this_thread().qsbr_pause(); });
    unodb::this_thread().qsbr_resume();
    unodb::this_thread().quiescent();
    unodb::this_thread().quiescent();

    // ---- C14: single-threaded sweep must not spin (a spin exits the process) ---------
    std::vector<pop> final_gets;
    std::set<std::string> all_keys;
    for (auto& k : init) all_keys.insert(k);
    for (auto& pt : prog)
      for (auto& o : pt)
        if (o.k == O_GET || o.k == O_INS || o.k == O_REM) all_keys.insert(o.key);
    sweep_mode = true;
    sweep_steps = 0;
    kvmap final_state;
    {
      const std::uint64_t after = S.stamp();
      for (auto& k : all_keys) {
        pop g;
        g.k = O_GET;
        g.key = k;
        g.call = after + 1;
        g.ret = after + 2;
        const auto r = db->get(mk_key<Key>(k));
        g.res = r.has_value();
        if (g.res) {
          g.val.assign(reinterpret_cast<const char*>(r->begin().get()), r->size());
          final_state[k] = g.val;
        }
        final_gets.push_back(g);
      }
      // full scans both ways must agree with the gets (touches every node: ASan)
      std::vector<std::pair<std::string, std::string>> fwd, rev;
      db->scan([&](const auto& vis) {
        const auto kk = vis.get_key();
        const auto vv = vis.get_value();
        fwd.emplace_back(std::string(reinterpret_cast<const char*>(kk.data()), kk.size()),
                         std::string(reinterpret_cast<const char*>(vv.begin().get()), vv.size()));
        return false;
      }, true);
      db->scan([&](const auto& vis) {
        const auto kk = vis.get_key();
        const auto vv = vis.get_value();
        rev.emplace_back(std::string(reinterpret_cast<const char*>(kk.data()), kk.size()),
                         std::string(reinterpret_cast<const char*>(vv.begin().get()), vv.size()));
        return false;
      }, false);
      std::vector<std::pair<std::string, std::string>> want(final_state.begin(), final_state.end());
      if (fwd != want && v03.empty()) v03 = "after the execution a full forward scan disagrees with point lookups";
      std::reverse(rev.begin(), rev.end());
      if (rev != want && v03.empty()) v03 = "after the execution a full reverse scan disagrees with point lookups";
    }

    // ---- C03: per-key linearizability ----------------------------------------------------
    {
      std::map<std::string, std::vector<const pop*>> byk;
      for (auto& pt : prog)
        for (auto& o : pt)
          if (o.executed && (o.k == O_GET || o.k == O_INS || o.k == O_REM)) byk[o.key].push_back(&o);
      for (auto& g : final_gets) byk[g.key].push_back(&g);
      for (auto& [k, ops] : byk) {
        auto it = initial.find(k);
        if (!lin_key(ops, it != initial.end(), it != initial.end() ? it->second : std::string())) {
          if (v03.empty()) {
            v03 = "results on key " + to_hex(k) + " are not linearizable:";
            for (auto* o : ops)
              v03 += std::string(" [") + (o->k == O_GET ? "get" : o->k == O_INS ? "ins" : "rem") + "->" + (o->res ? "1" : "0") + " " +
                     std::to_string(o->call) + "-" + std::to_string(o->ret) + "]";
            v03 += it != initial.end() ? " initially present" : " initially absent";
          }
        }
      }
    }
    // ---- C09: scans ---------------------------------------------------------------------
    bool scan_overlapped_writer = false;
    {
      std::map<std::string, std::vector<const pop*>> writers;
      for (auto& pt : prog)
        for (auto& o : pt)
          if (o.executed && (o.k == O_INS || o.k == O_REM)) writers[o.key].push_back(&o);
      for (auto& pt : prog)
        for (auto& s : pt) {
          if (!s.executed || (s.k != O_SCAN && s.k != O_SCANFROM && s.k != O_SCANRANGE)) continue;
          bool fwd = s.fwd;
          std::string lo, hi;  // inclusive lo, bounds per kind
          bool has_lo = false, has_hi = false, lo_incl = true, hi_incl = true, empty_range = false;
          if (s.k == O_SCANFROM) {
            if (fwd) { lo = s.key; has_lo = true; } else { hi = s.key; has_hi = true; }
          } else if (s.k == O_SCANRANGE) {
            if (s.key < s.key2) { fwd = true; lo = s.key; has_lo = true; hi = s.key2; has_hi = true; hi_incl = false; }
            else if (s.key > s.key2) { fwd = false; hi = s.key; has_hi = true; lo = s.key2; has_lo = true; lo_incl = false; }
            else empty_range = true;
          }
          auto in_range = [&](const std::string& k) {
            if (empty_range) return false;
            if (has_lo && (lo_incl ? k < lo : k <= lo)) return false;
            if (has_hi && (hi_incl ? k > hi : k >= hi)) return false;
            return true;
          };
          for (std::size_t i = 0; i < s.out.size(); ++i) {
            const auto& k = s.out[i].first;
            if (i > 0 && (fwd ? !(s.out[i - 1].first < k) : !(s.out[i - 1].first > k))) {
              if (v09.empty()) v09 = "scan delivered keys out of order: " + to_hex(s.out[i - 1].first) + " then " + to_hex(k);
            }
            if (!in_range(k) && v09.empty()) v09 = "scan delivered key " + to_hex(k) + " outside the requested interval";
            // value validity
            bool valid = false;
            const auto& v = s.out[i].second;
            auto iv = initial.find(k);
            auto definitely_removed_before_scan = [&](std::uint64_t since) {
              auto w = writers.find(k);
              if (w == writers.end()) return false;
              for (auto* r : w->second)
                if (r->k == O_REM && r->res && r->call > since && r->ret < s.call) return true;
              return false;
            };
            if (iv != initial.end() && iv->second == v && !definitely_removed_before_scan(0)) valid = true;
            auto w = writers.find(k);
            if (!valid && w != writers.end())
              for (auto* ins : w->second)
                if (ins->k == O_INS && ins->res && value_of(ins->vseed) == v && ins->call < s.ret && !definitely_removed_before_scan(ins->ret)) valid = true;
            if (!valid && v09.empty()) v09 = "scan delivered a value for key " + to_hex(k) + " that the key did not hold at any moment during the scan";
          }
          // completeness for stable keys
          const bool halted = s.halt > 0 && static_cast<int>(s.out.size()) >= s.halt;
          for (auto& k : all_keys) {
            if (!in_range(k)) continue;
            if (halted) {
              // only keys up to the halting point
              if (s.out.empty()) continue;
              const auto& last = s.out.back().first;
              if (fwd ? k > last : k < last) continue;
            }
            bool unstable = false;
            std::vector<const pop*> before;
            auto w = writers.find(k);
            if (w != writers.end())
              for (auto* x : w->second) {
                if (!(x->ret < s.call) && !(x->call > s.ret)) {
                  unstable = true;
                  if (x->res) scan_overlapped_writer = true;
                }
                if (x->ret < s.call) before.push_back(x);
              }
            if (unstable) continue;
            std::sort(before.begin(), before.end(), [](const pop* a, const pop* b) { return a->ret < b->ret; });
            bool amb = false;
            for (std::size_t i = 1; i < before.size(); ++i)
              if (before[i]->call < before[i - 1]->ret) amb = true;
            if (amb) continue;
            bool present = initial.count(k) != 0;
            for (auto* x : before)
              if (x->res) present = (x->k == O_INS);
            long cnt = 0;
            for (auto& e : s.out)
              if (e.first == k) ++cnt;
            if (present && cnt != 1 && v09.empty())
              v09 = "key " + to_hex(k) + ", present for the whole duration of the scan, was delivered " + std::to_string(cnt) + " times";
            if (!present && cnt != 0 && v09.empty()) v09 = "key " + to_hex(k) + ", absent for the whole duration of the scan, was delivered";
          }
          // any successful writer overlapping the scan at all?
          for (auto& [wk, ws] : writers)
            for (auto* x : ws)
              if (x->res && !(x->ret < s.call) && !(x->call > s.ret)) scan_overlapped_writer = true;
        }
    }
    // ---- C04 / C10: accounting after the drain ---------------------------------------------
    unsigned retired_transitions = 0;
#ifdef UNODB_DETAIL_WITH_STATS
    {
      const auto mem = db->get_current_memory_use();
      if (mem != TR.live_bytes) {
        const std::string m = "after the drained concurrent phase the index reports " + std::to_string(mem) +
                              " bytes but holds " + std::to_string(TR.live_bytes) + " bytes from the allocator";
        // (decides C10 only: C04's 'freed exactly once, nothing lost' is decided without the reported
        // statistics - ASan for double frees, the live set after destruction for lost nodes)
        if (v10.empty()) v10 = m;
      }
      const verif::shape sh = verif::canonical_shape(final_state);
      const auto counts = db->get_node_counts();
      for (std::size_t c = 0; c < 5; ++c)
        if (counts[c] != sh.nodes[c] && v10.empty())
          v10 = "after the drained concurrent phase node count of class " + std::to_string(c) + " is " + std::to_string(counts[c]) +
                ", the canonical tree of the final key set has " + std::to_string(sh.nodes[c]);
      const auto grow1 = db->get_growing_inode_counts();
      const auto shrink1 = db->get_shrinking_inode_counts();
      for (std::size_t i = 0; i < 4; ++i) {
        if (grow1[i] < grow0[i] || shrink1[i] < shrink0[i]) {
          if (v10.empty()) v10 = "a growth / shrink counter decreased during the concurrent phase";
        }
        retired_transitions += static_cast<unsigned>((grow1[i] - grow0[i]) + (shrink1[i] - shrink0[i]));
        if (st && grow1[i] > grow0[i]) st->inc("transitions_under_contention.grow_to_class_" + std::to_string(i + 1), grow1[i] - grow0[i]);
        if (st && shrink1[i] > shrink0[i]) st->inc("transitions_under_contention.shrink_from_class_" + std::to_string(i + 1), shrink1[i] - shrink0[i]);
      }
      if (st && db->get_key_prefix_splits() > splits0) st->inc("transitions_under_contention.prefix_split", db->get_key_prefix_splits() - splits0);
      // Counters "move only when an inner node is created, replaced by one of another size class, or
      // dissolved": every unit a counter moved during the concurrent phase needs its own structural
      // event. Which events happened depends on the order in which the successful writes took effect,
      // which the results alone do not reveal: enumerate every order of the successful inserts / removes
      // that respects real-time precedence and per-key validity, replay each on the canonical model and
      // demand that at least ONE order has, per class, at least as many events as the counter moved.
      // (Exact equality with some order is only a diagnostic, as in the sequential check.)
      if (v03.empty() && v10.empty()) {
        std::vector<const pop*> W;
        for (auto& pt : prog)
          for (auto& o : pt)
            if (o.executed && o.res && (o.k == O_INS || o.k == O_REM)) W.push_back(&o);
        std::array<std::uint64_t, 4> dG{}, dS{};
        for (std::size_t i = 0; i < 4; ++i) {
          dG[i] = grow1[i] - grow0[i];
          dS[i] = shrink1[i] - shrink0[i];
        }
        const std::uint64_t dP = db->get_key_prefix_splits() - splits0;
        if (W.size() <= 14) {
          kvmap cur = initial;
          std::array<std::uint64_t, 4> aG{}, aS{};
          std::uint64_t aP = 0;
          std::uint64_t leaves = 0;
          bool ok_some = false, exact_some = false, capped = false;
          std::array<std::uint64_t, 4> maxG{}, maxS{};
          std::vector<char> done(W.size(), 0);
          std::function<void(std::size_t)> rec = [&](std::size_t ndone) {
            if (capped || (ok_some && exact_some)) return;
            if (ndone == W.size()) {
              if (++leaves > 20000) {
                capped = true;
                return;
              }
              bool le = aP >= dP, eq = aP == dP;
              for (std::size_t c = 0; c < 4; ++c) {
                if (dG[c] > aG[c] || dS[c] > aS[c]) le = false;
                if (dG[c] != aG[c] || dS[c] != aS[c]) eq = false;
                maxG[c] = std::max(maxG[c], aG[c]);
                maxS[c] = std::max(maxS[c], aS[c]);
              }
              if (le) ok_some = true;
              if (eq) exact_some = true;
              return;
            }
            for (std::size_t i = 0; i < W.size(); ++i) {
              if (done[i]) continue;
              bool blocked_by_rt = false;
              for (std::size_t j = 0; j < W.size(); ++j)
                if (!done[j] && j != i && W[j]->ret < W[i]->call) blocked_by_rt = true;
              if (blocked_by_rt) continue;
              const bool present = cur.count(W[i]->key) != 0;
              if ((W[i]->k == O_INS) == present) continue;  // insert needs absence, remove presence
              verif::counter_delta d;
              std::string saved;
              if (W[i]->k == O_INS) {
                d = verif::expected_insert_delta(cur, W[i]->key);
                cur[W[i]->key] = "v";
              } else {
                d = verif::expected_remove_delta(cur, W[i]->key);
                saved = cur[W[i]->key];
                cur.erase(W[i]->key);
              }
              for (std::size_t c = 0; c < 4; ++c) {
                aG[c] += static_cast<std::uint64_t>(d.growing[c]);
                aS[c] += static_cast<std::uint64_t>(d.shrinking[c]);
              }
              aP += static_cast<std::uint64_t>(d.prefix_splits);
              done[i] = 1;
              rec(ndone + 1);
              done[i] = 0;
              for (std::size_t c = 0; c < 4; ++c) {
                aG[c] -= static_cast<std::uint64_t>(d.growing[c]);
                aS[c] -= static_cast<std::uint64_t>(d.shrinking[c]);
              }
              aP -= static_cast<std::uint64_t>(d.prefix_splits);
              if (W[i]->k == O_INS) cur.erase(W[i]->key);
              else cur[W[i]->key] = saved;
            }
          };
          rec(0);
          if (st) st->inc(capped ? "counter_oracle_enumeration_capped" : "counter_oracle_evaluated");
          if (!capped && leaves > 0) {
            if (st && leaves > 1) st->inc("counter_oracle_with_several_write_orders");
            if (!ok_some) {
              std::string m = "growth / shrink / prefix-split counters moved by more than the structural events of ANY order of the successful writes: moved grow={";
              for (std::size_t c = 0; c < 4; ++c) m += std::to_string(dG[c]) + (c < 3 ? "," : "} shrink={");
              for (std::size_t c = 0; c < 4; ++c) m += std::to_string(dS[c]) + (c < 3 ? "," : "} splits=");
              m += std::to_string(dP) + "; per-class maxima over " + std::to_string(leaves) + " orders: grow={";
              for (std::size_t c = 0; c < 4; ++c) m += std::to_string(maxG[c]) + (c < 3 ? "," : "} shrink={");
              for (std::size_t c = 0; c < 4; ++c) m += std::to_string(maxS[c]) + (c < 3 ? "," : "}");
              v10 = m;
            } else if (!exact_some && st) {
              st->inc("diagnostic_counters_equal_no_write_order_exactly");
            }
          }
        } else if (st) {
          st->inc("counter_oracle_skipped_too_many_writes");
        }
      }
    }
#endif
    {
      // insert+remove probe next to every key
      for (auto& k : all_keys) {
        const std::string probe = u64_to_be(be_to_u64(k) ^ 1ULL);
        if (all_keys.count(probe)) continue;
        const char one = 1;
        const bool a = db->insert(mk_key<Key>(probe), unodb::value_view{reinterpret_cast<const std::byte*>(&one), 1});
        const bool b = db->remove(mk_key<Key>(probe));
        if ((!a || !b) && v03.empty()) v03 = "after the execution an insert+remove probe next to a key failed";
      }
      unodb::this_thread().quiescent();
    }
    sweep_mode = false;
    delete db;
    unodb::this_thread().quiescent();
    unodb::this_thread().quiescent();
    if (!TR.live.empty() && v04.empty())
      v04 = "destroying the index left " + std::to_string(TR.live.size()) + " tree blocks allocated (a retired node or leaf was lost)";
    TR.tracking = false;
    unodb::this_thread().qsbr_pause();

    // ---- verdict for the property this run is for --------------------------------------------
    const std::string* mine = prop == "C03" ? &v03 : prop == "C04" ? &v04 : prop == "C09" ? &v09 : prop == "C10" ? &v10 : &v14;
    if (!mine->empty()) {
      res.ok = false;
      res.msg = *mine;
    }
    // non-triviality
    bool overlap = false;
    {
      std::vector<const pop*> all;
      for (auto& pt : prog)
        for (auto& o : pt)
          if (o.executed) all.push_back(&o);
      for (auto* a : all)
        for (auto* b : all)
          if (a < b && !(a->ret < b->call) && !(b->ret < a->call) && ((a->res && (a->k == O_INS || a->k == O_REM)) || (b->res && (b->k == O_INS || b->k == O_REM))))
            overlap = true;
    }
    if (prop == "C03") res.nontrivial = preempts > 0 && overlap;
    else if (prop == "C04") res.nontrivial = TR.frees_during_run > 0 || (retired_transitions > 0 && overlap);
    else if (prop == "C09") res.nontrivial = scan_overlapped_writer;
    else if (prop == "C10") res.nontrivial = retired_transitions > 0 && overlap;
    else res.nontrivial = spins > 0;
    if (st) {
      if (overlap) st->inc("executions_with_overlapping_successful_writer");
      if (spins) st->inc("executions_with_contention_spin");
      if (TR.frees_during_run) st->inc("executions_with_free_during_concurrent_phase");
      if (scan_overlapped_writer) st->inc("executions_scan_overlapping_successful_writer");
      for (auto* v : {&v03, &v04, &v09, &v10})
        if (!v->empty() && v != mine) st->inc(std::string("other_property_failures_") + (v == &v03 ? "C03" : v == &v04 ? "C04" : v == &v09 ? "C09" : "C10"));
    }
    return res;
  }
};

}  // namespace

int main(int argc, char** argv) {
  olc_harness H;
  verif::args a(argc, argv);
  H.prop = a.str("prop", "C03");
  H.shape = a.str("shape", "");
  return sched_main(argc, argv, H);
}
