// C08, QSBR part: qsbr_resume(), qsbr_thread construction and
// on_next_epoch_deallocate() with every k-th allocation failing must leave no
// trace. Built WITHOUT sanitizers and linked with the repository's
// test_heap.cpp so that global operator new is intercepted by the library's
// allocation-failure injector too (std::make_unique, std::vector growth,
// std::thread state).
//
//   qsbr_fault --seed S --cases N --out stats.json --fail-dir D
//   qsbr_fault --replay FILE
//
// A case is a generated script executed by the main thread with one helper
// QSBR thread that acts only on command:
//   retire            main requests deferred deallocation of a fresh block   (faulted)
//   resume / pause    main                                                     (resume faulted)
//   start             construct + join a qsbr_thread                          (faulted)
//   q / hq            quiescent state of main / of the helper
//   hpause / hresume  helper pauses / resumes
#include "global.hpp"  // unodb: first

#include <condition_variable>
#include <iostream>
#include <mutex>
#include <set>

#include "heap.hpp"
#include "qsbr.hpp"
#include "test_heap.hpp"

#include "../common/vcommon.hpp"

using namespace verif;

namespace {

const int EXIT_VIOLATED = 42;
using inj = unodb::test::allocation_failure_injector;

std::set<void*> freed;  // blocks reported freed (main thread or helper while main waits)
std::mutex freed_mu;
void on_free(void* p, std::size_t) noexcept {
  // no allocation here: the set node is allocated... avoid by using a fixed array
  (void)p;
}

// fixed-size record of frees (no allocation inside the hook)
constexpr int MAXF = 4096;
void* freed_arr[MAXF];
std::atomic<int> freed_n{0};
void on_free2(void* p, std::size_t) noexcept {
  const int i = freed_n.fetch_add(1);
  if (i < MAXF) freed_arr[i] = p;
}
int count_freed(void* p) {
  int c = 0;
  const int n = std::min(freed_n.load(), MAXF);
  for (int i = 0; i < n; ++i)
    if (freed_arr[i] == p) ++c;
  return c;
}

struct helper {
  std::mutex m;
  std::condition_variable cv;
  int cmd = 0;  // 0 none, 1 q, 2 pause, 3 resume, 9 exit
  bool done = true;
  bool paused = false;
  void run_cmd(int c) {
    std::unique_lock lk(m);
    cmd = c;
    done = false;
    cv.notify_all();
    cv.wait(lk, [&] { return done; });
  }
  void body() {
    std::unique_lock lk(m);
    while (true) {
      cv.wait(lk, [&] { return cmd != 0; });
      const int c = cmd;
      cmd = 0;
      if (c == 1 && !paused) unodb::this_thread().quiescent();
      if (c == 2 && !paused) {
        unodb::this_thread().qsbr_pause();
        paused = true;
      }
      if (c == 3 && paused) {
        unodb::this_thread().qsbr_resume();
        paused = false;
      }
      done = true;
      cv.notify_all();
      if (c == 9) return;
    }
  }
};

void retire(void* p) {
  unodb::this_thread().on_next_epoch_deallocate(p
#ifdef UNODB_DETAIL_WITH_STATS
                                                ,
                                                64
#endif
#ifndef NDEBUG
                                                ,
                                                nullptr
#endif
  );
}

std::uint64_t thread_count() { return unodb::qsbr_state::get_thread_count(unodb::qsbr::instance().get_state()); }

struct qstate {
  std::uint64_t threads;
  bool main_paused;
  bool cur_empty, prev_empty, ocur_empty, oprev_empty;
  int frees;
  bool operator==(const qstate& o) const {
    return threads == o.threads && main_paused == o.main_paused && cur_empty == o.cur_empty && prev_empty == o.prev_empty &&
           ocur_empty == o.ocur_empty && oprev_empty == o.oprev_empty && frees == o.frees;
  }
};
qstate snap() {
  auto& t = unodb::this_thread();
  return {thread_count(),
          t.is_qsbr_paused(),
          t.current_interval_requests_empty(),
          t.previous_interval_requests_empty(),
          unodb::qsbr::instance().current_interval_orphaned_requests_empty(),
          unodb::qsbr::instance().previous_interval_orphaned_requests_empty(),
          freed_n.load()};
}

struct result {
  bool ok = true;
  std::string msg;
  unsigned faults = 0, faults_k2 = 0;
};

// runs one script; ops as tokens
result run_script(const std::vector<std::string>& ops, stats* st) {
  result r;
  freed_n.store(0);
  helper h;
  unodb::qsbr_thread ht([&h] { h.body(); });
  bool main_paused = false;
  std::vector<void*> retired;  // successfully requested blocks
  // all blocks are allocated up front so that their addresses are distinct
  // within one script (a freed address is never handed out again)
  std::vector<void*> pool;
  for (auto& o : ops)
    if (o == "retire") pool.push_back(unodb::detail::allocate_aligned(64));
  std::size_t next_block = 0;
  auto fail = [&](const std::string& m) {
    if (r.ok) {
      r.ok = false;
      r.msg = m;
    }
  };
  // k-loop around a faulted operation
  auto faulted = [&](const char* what, auto op, auto extra_check) {
    for (unsigned k = 1; k < 30; ++k) {
      const qstate before = snap();
      inj::reset();
      inj::fail_on_nth_allocation(k);
      bool threw = false, wrong = false;
      try {
        op();
      } catch (const std::bad_alloc&) {
        threw = true;
      } catch (...) {
        wrong = true;
      }
      inj::reset();
      if (wrong) return fail(std::string(what) + " threw something other than std::bad_alloc");
      if (!threw) return;
      ++r.faults;
      if (k >= 2) ++r.faults_k2;
      if (st) st->inc(std::string("faults.") + what + ".k" + std::to_string(k));
      const qstate after = snap();
      if (!(before == after)) {
        std::string d = before.threads != after.threads ? "registered-thread count changed" :
                        before.main_paused != after.main_paused ? "paused state changed" :
                        before.frees != after.frees ? "a block was freed" : "pending-request lists changed";
        return fail(std::string(what) + " failed with std::bad_alloc at its allocation #" + std::to_string(k) + " but left a trace: " + d);
      }
      extra_check();
      if (!r.ok) return;
    }
    fail(std::string(what) + " still fails after 29 allocation faults");
  };

  for (auto& o : ops) {
    if (!r.ok) break;
    if (o == "retire") {
      if (main_paused) continue;
      void* p = pool[next_block++];
      faulted("deferred_deallocation_request", [&] { retire(p); },
              [&] {
                if (count_freed(p) != 0) fail("a failed deallocation request freed its block");
                std::memset(p, 0x5a, 64);  // still owned by the caller
              });
      retired.push_back(p);
    } else if (o == "resume") {
      if (!main_paused) continue;
      faulted("qsbr_resume", [&] { unodb::this_thread().qsbr_resume(); }, [] {});
      main_paused = false;
    } else if (o == "pause") {
      if (main_paused) continue;
      unodb::this_thread().qsbr_pause();
      main_paused = true;
    } else if (o == "start") {
      std::atomic<int> ran{0};
      unodb::qsbr_thread t2;
      faulted("qsbr_thread_start", [&] { t2 = unodb::qsbr_thread{[&ran]() noexcept { ran.fetch_add(1); }}; },
              [&] {
                if (t2.joinable()) fail("a failed thread start left a running thread");
              });
      if (t2.joinable()) t2.join();
      if (r.ok && ran.load() != 1) fail("the un-faulted thread start did not run its function exactly once");
    } else if (o == "q") {
      if (!main_paused) unodb::this_thread().quiescent();
    } else if (o == "hq") {
      h.run_cmd(1);
    } else if (o == "hpause") {
      h.run_cmd(2);
    } else if (o == "hresume") {
      h.run_cmd(3);
    }
  }
  // drain: helper leaves, main quiesces; every successfully requested block freed exactly once
  h.run_cmd(2);
  h.run_cmd(9);
  ht.join();
  if (main_paused) unodb::this_thread().qsbr_resume();
  unodb::this_thread().quiescent();
  unodb::this_thread().quiescent();
  for (std::size_t i = next_block; i < pool.size(); ++i) unodb::detail::free_aligned(pool[i]);
  if (r.ok) {
    for (void* p : retired)
      if (count_freed(p) != 1) {
        fail("a block whose deallocation request succeeded (after failed attempts) was freed " + std::to_string(count_freed(p)) + " times");
        break;
      }
    if (thread_count() != 1) fail("registered-thread count is not 1 after the drain");
  }
  return r;
}

std::vector<std::string> gen_script(vrng& r) {
  static const char* ops[] = {"retire", "retire", "retire", "retire", "q", "hq", "pause", "resume", "start", "hpause", "hresume", "q", "hq"};
  std::vector<std::string> s;
  const unsigned n = 1 + static_cast<unsigned>(r.below(r.chance(1, 4) ? 60 : 14));
  for (unsigned i = 0; i < n; ++i) {
    std::string o = ops[r.below(sizeof ops / sizeof ops[0])];
    s.push_back(o);
    if (o == "pause" && r.chance(3, 4)) s.push_back("resume");
    if (o == "retire" && r.chance(1, 3)) {
      const unsigned burst = static_cast<unsigned>(r.below(12));  // cross vector capacity boundaries
      for (unsigned b = 0; b < burst; ++b) s.push_back("retire");
    }
  }
  return s;
}

std::string to_text(const std::vector<std::string>& s) {
  std::string t;
  for (auto& o : s) t += o + "\n";
  return t;
}

}  // namespace

int main(int argc, char** argv) {
  args a(argc, argv);
  unodb::detail::verif::free_hook.store(&on_free2);
  (void)on_free;
  if (a.has("replay")) {
    std::vector<std::string> s;
    std::istringstream is(read_file(a.str("replay")));
    std::string l;
    while (std::getline(is, l)) {
      auto t = split_ws(l);
      if (!t.empty() && t[0][0] != '#') s.push_back(t[0]);
    }
    auto r = run_script(s, nullptr);
    if (!r.ok) {
      std::cout << "FAIL C08 " << r.msg << "\n";
      return EXIT_VIOLATED;
    }
    std::cout << "PASS\n";
    return 0;
  }
  const std::uint64_t seed = a.u64("seed", 1), cases = a.u64("cases", 100);
  const std::string out = a.str("out", ""), fail_dir = a.str("fail-dir", ".");
  stats st;
  for (std::uint64_t i = 0; i < cases; ++i) {
    vrng r(hash_combine(seed, i));
    auto s = gen_script(r);
    auto res = run_script(s, &st);
    st.inc("cases");
    st.inc("faults", res.faults);
    st.inc("faults_k2plus", res.faults_k2);
    if (res.faults_k2) st.add_nontrivial(hash_str(to_text(s)));
    if (i < 3) st.add_sample(to_text(s));
    if (!res.ok) {
      // shrink: drop ops while it still fails (in-process: failures here are not crashes)
      bool progress = true;
      while (progress) {
        progress = false;
        for (std::size_t j = 0; j < s.size(); ++j) {
          auto c = s;
          c.erase(c.begin() + static_cast<long>(j));
          if (!c.empty() && !run_script(c, nullptr).ok) {
            s = c;
            progress = true;
            break;
          }
        }
      }
      auto r2 = run_script(s, nullptr);
      const std::string path = fail_dir + "/C08_qsbr_seed" + std::to_string(seed) + "_case" + std::to_string(i) + ".txt";
      write_file(path, "# property C08 violated (QSBR part): " + (r2.ok ? res.msg : r2.msg) + "\n# engine: qsbr_fault\n" + to_text(s));
      if (!out.empty()) st.write(out);
      std::cout << "FAILURE " << path << " :: " << (r2.ok ? res.msg : r2.msg) << "\n";
      return 1;
    }
  }
  if (!out.empty()) st.write(out);
  return 0;
}
