// One index configuration of the sequential runner per translation unit
// (compiled six times with -DSEQ_CFG=0..5 so that the builds run in parallel).
#include "seq_runner.hpp"

#ifndef SEQ_CFG
#error SEQ_CFG must be defined
#endif

namespace verif::seq {
#define VERIF_CAT2(a, b) a##b
#define VERIF_CAT(a, b) VERIF_CAT2(a, b)
void VERIF_CAT(run_case_cfg, SEQ_CFG)(const scase& c, const run_opts& o, verdict& v, stats* s) {
  run_case_impl<SEQ_CFG>(c, o, v, s);
}
#if SEQ_CFG == 0
void install_alloc_tracker() { alloc_tracker::install(); }
#endif
}  // namespace verif::seq
