// Interpreter of sequential histories against one index configuration and
// the reference models; oracles of C01 (point operations), C02 (scans) and
// C10 (shape / statistics / memory accounting).
//
// Compiled once per configuration (seq_cfg.cpp with -DSEQ_CFG=n).
#ifndef VERIF_SEQ_RUNNER_HPP
#define VERIF_SEQ_RUNNER_HPP

#include "global.hpp"  // unodb: must be first

#include <unistd.h>

#include <cstddef>
#include <cstdint>
#include <memory>
#include <new>
#include <optional>
#include <stdexcept>
#include <string>
#include <unordered_map>
#include <unordered_set>
#include <vector>

#include "art.hpp"
#include "mutex_art.hpp"
#include "olc_art.hpp"
#include "qsbr.hpp"

#include "seq_case.hpp"

namespace verif::seq {

// ---- allocation tracking through the verification hooks -------------------
struct alloc_tracker {
  std::unordered_map<void*, std::size_t> live;
  std::size_t live_bytes = 0;
  bool in_call = false;
  bool bad_free = false;
  static alloc_tracker& get() {
    static alloc_tracker t;
    return t;
  }
  static void on_alloc(void* p, std::size_t n) noexcept {
    auto& t = get();
    if (!t.in_call) return;
    t.live[p] = n;
    t.live_bytes += n;
  }
  static void on_free(void* p, std::size_t) noexcept {
    auto& t = get();
    auto it = t.live.find(p);
    if (it == t.live.end()) return;  // block not allocated inside an index call
    t.live_bytes -= it->second;
    t.live.erase(it);
  }
  void reset() {
    live.clear();
    live_bytes = 0;
    in_call = false;
  }
  static void install() {
    unodb::detail::verif::alloc_hook.store(&on_alloc);
    unodb::detail::verif::free_hook.store(&on_free);
    // single-threaded harness: reaching a spin-wait means a lock was left held
    unodb::detail::verif::sched_hook.store(+[](unsigned kind, const void*) noexcept {
      if (kind == unodb::detail::verif::spin) {
        static const char msg[] = "FAIL a node or root lock was left held: a single-threaded operation reached a spin-wait\n";
        (void)!write(2, msg, sizeof msg - 1);
        _exit(43);
      }
    });
  }
};
struct call_scope {
  call_scope() { alloc_tracker::get().in_call = true; }
  ~call_scope() { alloc_tracker::get().in_call = false; }
};

template <int CFG>
struct cfg_traits;
template <>
struct cfg_traits<DB_U64> {
  using key = std::uint64_t;
  using db = unodb::db<key, unodb::value_view>;
};
template <>
struct cfg_traits<MUTEX_U64> {
  using key = std::uint64_t;
  using db = unodb::mutex_db<key, unodb::value_view>;
};
template <>
struct cfg_traits<OLC_U64> {
  using key = std::uint64_t;
  using db = unodb::olc_db<key, unodb::value_view>;
};
template <>
struct cfg_traits<DB_KV> {
  using key = unodb::key_view;
  using db = unodb::db<key, unodb::value_view>;
};
template <>
struct cfg_traits<MUTEX_KV> {
  using key = unodb::key_view;
  using db = unodb::mutex_db<key, unodb::value_view>;
};
template <>
struct cfg_traits<OLC_KV> {
  using key = unodb::key_view;
  using db = unodb::olc_db<key, unodb::value_view>;
};

template <int CFG>
struct runner {
  using traits = cfg_traits<CFG>;
  using key_t = typename traits::key;
  using db_t = typename traits::db;
  static constexpr bool is_u64 = std::is_same_v<key_t, std::uint64_t>;
  static constexpr bool is_olc = (CFG == OLC_U64 || CFG == OLC_KV);
  static constexpr bool is_mutex = (CFG == MUTEX_U64 || CFG == MUTEX_KV);

  struct held_view {
    std::string key;
    const std::byte* p;
    std::size_t n;
    std::string expect;
  };

  const run_opts& opts;
  verdict& vd;
  stats* st;
  std::unique_ptr<db_t> db;
  kvmap model;
  std::vector<held_view> held;
  // C10 running expectations
  std::array<std::uint64_t, 4> exp_growing{}, exp_shrinking{};
  std::uint64_t exp_splits = 0;
  std::array<std::uint64_t, 4> prev_growing{}, prev_shrinking{};
  bool op_created_or_grew = false, op_shrank_or_dissolved = false;  // model: structural event in the current operation
  std::unordered_set<std::uint64_t> seen_keysets;
  std::uint64_t keyset_hash = 0;
  int cur_op = -1;

  runner(const run_opts& o, verdict& v, stats* s) : opts(o), vd(v), st(s) {}

  static key_t mk_key(const std::string& bytes) {
    if constexpr (is_u64) {
      return be_to_u64(bytes);
    } else {
      return unodb::key_view{reinterpret_cast<const std::byte*>(bytes.data()),
                             bytes.size()};
    }
  }
  static unodb::value_view mk_val(const std::string& v) {
    return unodb::value_view{reinterpret_cast<const std::byte*>(v.data()),
                             v.size()};
  }

  bool fail(const char* prop, const std::string& msg) {
    const bool fatal = (std::string(prop) == "C01" && opts.check_c01) ||
                       (std::string(prop) == "C02" && opts.check_c02) ||
                       (std::string(prop) == "C10" && opts.check_c10) ||
                       (std::string(prop) == "C08" && opts.check_c08 && opts.c08_fatal);
    if (!fatal) {
      if (st) st->inc(std::string("other_property_failures_") + prop);
      return false;
    }
    if (vd.ok) {
      vd.ok = false;
      vd.prop = prop;
      vd.message = msg;
      vd.op_index = cur_op;
    }
    return true;
  }

  // ---- C01: held views ----------------------------------------------------
  bool recheck_held() {
    for (auto& h : held) {
      // ASan traps if the bytes have been freed
      if (h.n != h.expect.size() ||
          (h.n != 0 && std::memcmp(h.p, h.expect.data(), h.n) != 0)) {
        if (fail("C01", "held value view of key " + to_hex(h.key) +
                            " changed while its entry exists"))
          return false;
      }
    }
    return true;
  }
  void drop_held(const std::string& key) {
    held.erase(std::remove_if(held.begin(), held.end(),
                              [&](const held_view& h) { return h.key == key; }),
               held.end());
  }

  // ---- C10 ------------------------------------------------------------------
  bool check_c10(const char* when) {
#ifdef UNODB_DETAIL_WITH_STATS
    if (!opts.check_c10) return true;
    const shape sh = canonical_shape(model);
    const auto counts = db->get_node_counts();
    for (int c = 0; c < 5; ++c) {
      if (counts[static_cast<std::size_t>(c)] != sh.nodes[static_cast<std::size_t>(c)]) {
        static const char* nm[] = {"leaf", "I4", "I16", "I48", "I256"};
        if (fail("C10", std::string(when) + ": node count " + nm[c] + " reported " +
                            std::to_string(counts[static_cast<std::size_t>(c)]) +
                            ", canonical tree of the key set has " +
                            std::to_string(sh.nodes[static_cast<std::size_t>(c)])))
          return false;
      }
    }
    // Counters, as the statement words it: they never decrease, and they move
    // only when an inner node is created / replaced by one of another size
    // class / dissolved (the model says whether this operation did that).
    // Exact agreement with the model's running sums is stronger than the
    // statement; a disagreement there is only counted as a diagnostic.
    const auto gr = db->get_growing_inode_counts();
    const auto shc = db->get_shrinking_inode_counts();
    bool moved_g = false, moved_s = false;
    for (std::size_t i = 0; i < 4; ++i) {
      if (gr[i] < prev_growing[i] || shc[i] < prev_shrinking[i]) {
        if (fail("C10", std::string(when) + ": a growth / shrink counter decreased")) return false;
      }
      if (gr[i] != prev_growing[i]) moved_g = true;
      if (shc[i] != prev_shrinking[i]) moved_s = true;
      if ((gr[i] != exp_growing[i] || shc[i] != exp_shrinking[i]) && st && opts.collect)
        st->inc("diagnostic_counter_differs_from_exact_model");
    }
    if (moved_g && !op_created_or_grew) {
      if (fail("C10", std::string(when) + ": a growth counter moved although this operation neither created an inner node nor replaced one by a larger one"))
        return false;
    }
    if (moved_s && !op_shrank_or_dissolved) {
      if (fail("C10", std::string(when) + ": a shrink counter moved although this operation neither replaced an inner node by a smaller one nor dissolved one"))
        return false;
    }
    if (db->get_key_prefix_splits() != exp_splits && st && opts.collect) st->inc("diagnostic_prefix_splits_differs_from_exact_model");
    prev_growing = gr;
    prev_shrinking = shc;
    const auto mem = db->get_current_memory_use();
    const auto live = alloc_tracker::get().live_bytes;
    if (mem != live) {
      if (fail("C10", std::string(when) + ": reported memory use " + std::to_string(mem) +
                          " != bytes held from the allocator " + std::to_string(live)))
        return false;
    }
    if (model.empty() && mem != 0) {
      if (fail("C10", std::string(when) + ": empty index reports memory use " +
                          std::to_string(mem)))
        return false;
    }
#else
    (void)when;
#endif
    return true;
  }

  // sorted-reload metamorphic check: history independence
  bool check_reload() {
#ifdef UNODB_DETAIL_WITH_STATS
    if (!opts.check_c10) return true;
    if constexpr (!is_u64) {
      // K1 exclusion applies to the intermediate key sets of the reload too
      if (opts.k1_exclusion) {
        kvmap partial;
        for (auto& e : model) {
          if (insert_needs_long_path(partial, e.first)) {
            ++vd.k1_excluded;
            return true;
          }
          partial.emplace(e.first, std::string());
        }
      }
    }
    auto& trk = alloc_tracker::get();
    // The fresh index's blocks must not disturb the accounting of the
    // index under test: suspend tracking while it lives.
    const bool saved = trk.in_call;
    trk.in_call = false;
    {
      db_t fresh;
      for (auto& e : model) {
        const bool r = fresh.insert(mk_key(e.first), mk_val(e.second));
        if (!r) {
          fail("C10", "sorted reload: insert of a fresh key failed");
          break;
        }
      }
      const auto a = db->get_node_counts();
      const auto b = fresh.get_node_counts();
      if (a != b) fail("C10", "sorted reload of the same key set reports different node counts");
      if (db->get_current_memory_use() != fresh.get_current_memory_use())
        fail("C10", "sorted reload of the same key set reports different memory use (" +
                        std::to_string(db->get_current_memory_use()) + " vs " +
                        std::to_string(fresh.get_current_memory_use()) + ")");
    }
    if constexpr (is_olc) unodb::this_thread().quiescent();
    trk.in_call = saved;
#endif
    return vd.ok;
  }

  void note_keyset() {
    if (!opts.collect) return;
    if (model.empty()) return;
    if (!seen_keysets.insert(keyset_hash).second) vd.revisited_keyset = true;
  }

  // ---- C08: snapshots and fault enumeration -------------------------------------
  struct snapshot {
    std::vector<std::pair<std::string, std::string>> content;  // forward scan
    std::vector<int> gets;                                      // per probe key: -1 miss, else value hash
    bool empty = false;
    std::array<std::uint64_t, 5> nodes{};
    std::array<std::uint64_t, 4> growing{}, shrinking{};
    std::uint64_t splits = 0;
    std::size_t mem = 0;
    std::vector<std::pair<void*, std::size_t>> live;
    bool operator==(const snapshot& o) const {
      return content == o.content && gets == o.gets && empty == o.empty && nodes == o.nodes && growing == o.growing &&
             shrinking == o.shrinking && splits == o.splits && mem == o.mem && live == o.live;
    }
  };
  std::string snapshot_diff(const snapshot& a, const snapshot& b) {
    if (a.content != b.content) return "scan output (entries / values) changed";
    if (a.gets != b.gets) return "get results changed";
    if (a.empty != b.empty) return "empty() changed";
    if (a.nodes != b.nodes) return "node counts changed";
    if (a.growing != b.growing || a.shrinking != b.shrinking || a.splits != b.splits) return "growth/shrink/prefix-split counters changed";
    if (a.mem != b.mem) return "reported memory use changed (" + std::to_string(a.mem) + " -> " + std::to_string(b.mem) + ")";
    if (a.live != b.live) return "the set of blocks held from the allocator changed (" + std::to_string(a.live.size()) + " -> " +
                                 std::to_string(b.live.size()) + " blocks): something leaked or was replaced";
    return "";
  }
  snapshot take_snapshot(const std::string& extra_key) {
    snapshot sn;
    auto& trk = alloc_tracker::get();
    const bool saved = trk.in_call;
    trk.in_call = false;  // iterator buffers etc. are not tree blocks
    db->scan([&](const auto& v) {
      const auto k = v.get_key();
      std::string ks(reinterpret_cast<const char*>(k.data()), k.size());
      std::string vs;
      if constexpr (is_olc) {
        const auto val = v.get_value();
        vs.assign(reinterpret_cast<const char*>(val.begin().get()), val.size());
      } else {
        const auto val = v.get_value();
        vs.assign(reinterpret_cast<const char*>(val.data()), val.size());
      }
      sn.content.emplace_back(std::move(ks), std::move(vs));
      return false;
    }, true);
    auto probe = [&](const std::string& key) {
      if (bound_violates_precondition(key)) {
        sn.gets.push_back(-2);
        return;
      }
      if constexpr (is_mutex) {
        auto r = db->get(mk_key(key));
        sn.gets.push_back(r.first ? static_cast<int>(hash_bytes(r.first->data(), r.first->size()) & 0x7fffffff) : -1);
      } else if constexpr (is_olc) {
        auto r = db->get(mk_key(key));
        sn.gets.push_back(r ? static_cast<int>(hash_bytes(r->begin().get(), r->size()) & 0x7fffffff) : -1);
      } else {
        auto r = db->get(mk_key(key));
        sn.gets.push_back(r ? static_cast<int>(hash_bytes(r->data(), r->size()) & 0x7fffffff) : -1);
      }
    };
    for (auto& e : model) probe(e.first);
    probe(extra_key);
    sn.empty = db->empty();
#ifdef UNODB_DETAIL_WITH_STATS
    sn.nodes = db->get_node_counts();
    sn.growing = db->get_growing_inode_counts();
    sn.shrinking = db->get_shrinking_inode_counts();
    sn.splits = db->get_key_prefix_splits();
    sn.mem = db->get_current_memory_use();
#endif
    sn.live.assign(trk.live.begin(), trk.live.end());
    std::sort(sn.live.begin(), sn.live.end());
    trk.in_call = saved;
    return sn;
  }

  // Runs op() with the k-th allocation failing, for k = 1, 2, ... until it
  // completes without a fault; every failed attempt must leave no trace.
  // Returns the result of the un-faulted run.
  template <class Op>
  bool with_faults(const std::string& key, const char* what, Op op) {
#ifndef NDEBUG
    using inj = unodb::test::allocation_failure_injector;
    for (unsigned k = 1; k < 40; ++k) {
      const snapshot before = take_snapshot(key);
      inj::reset();
      inj::fail_on_nth_allocation(k);
      bool threw = false, wrong = false, result = false;
      try {
        call_scope cs;
        result = op();
      } catch (const std::bad_alloc&) {
        threw = true;
      } catch (...) {
        wrong = true;
      }
      inj::reset();
      if (wrong) {
        fail("C08", std::string(what) + "(" + to_hex(key) + ") with allocation " + std::to_string(k) +
                        " failing threw something other than std::bad_alloc");
        return false;
      }
      if (!threw) return result;  // it made k-1 allocations
      const snapshot after = take_snapshot(key);
      ++vd.faults;
      if (k >= 2) ++vd.faults_k2plus;
      if (st && opts.collect) st->inc(std::string("faults.") + what + ".k" + std::to_string(k));
      const std::string d = snapshot_diff(before, after);
      if (!d.empty()) {
        fail("C08", std::string(what) + "(" + to_hex(key) + ") failed with std::bad_alloc at its allocation #" +
                        std::to_string(k) + " but left a trace: " + d);
        return false;
      }
    }
    fail("C08", std::string(what) + " still fails after 39 allocation faults");
    return false;
#else
    (void)key;
    (void)what;
    call_scope cs;
    return op();
#endif
  }

  // over-long value / key: std::length_error, nothing changes
  void long_input(const op& o) {
    if (o.kind == INS_LONGKEY && (is_u64 || model.count(o.key))) return;  // would extend a stored key
    const snapshot before = take_snapshot(o.key);
    bool ok = false, wrong = false, returned = false, result = false;
    std::vector<std::byte> buf(64);
    std::memcpy(buf.data(), o.key.data(), std::min<std::size_t>(o.key.size(), buf.size()));
    try {
      call_scope cs;
      if (o.kind == INS_LONGVAL) {
        const unodb::value_view huge{buf.data(), (std::size_t{1} << 32)};
        result = db->insert(mk_key(o.key), huge);
      } else {
        if constexpr (!is_u64) {
          const unodb::key_view huge{buf.data(), (std::size_t{1} << 32) + 1};
          result = db->insert(huge, mk_val(std::string("v")));
        } else {
          return;
        }
      }
      returned = true;
    } catch (const std::length_error&) {
      ok = true;
    } catch (...) {
      wrong = true;
    }
    // A duplicate key may be rejected (false) before the length is looked at;
    // an absent key with an over-long input must be refused by std::length_error.
    if (returned && !result && o.kind == INS_LONGVAL && model.count(o.key)) ok = true;
    if (wrong || !ok) {
      fail("C08", std::string("insert with an over-long ") + (o.kind == INS_LONGVAL ? "value" : "key") +
                      (wrong ? " threw something other than std::length_error" : " of an absent key did not throw"));
      return;
    }
    const snapshot after = take_snapshot(o.key);
    if (st && opts.collect) st->inc(o.kind == INS_LONGVAL ? "faults.length_error_value" : "faults.length_error_key");
    ++vd.faults;
    const std::string d = snapshot_diff(before, after);
    if (!d.empty()) fail("C08", "insert with an over-long input threw std::length_error but left a trace: " + d);
  }

  // ---- scans -----------------------------------------------------------------
  struct scan_out {
    std::vector<std::pair<std::string, std::string>> items;
    unsigned calls_after_halt = 0;
  };

  template <class V>
  static void deliver(scan_out& out, const V& v, int halt, bool& halted, bool& ret) {
    if (halted) {
      ++out.calls_after_halt;
      ret = true;
      return;
    }
    const auto k = v.get_key();
    std::string ks(reinterpret_cast<const char*>(k.data()), k.size());
    std::string vs;
    if constexpr (is_olc) {
      const auto val = v.get_value();
      const std::byte* p = val.begin().get();
      vs.assign(reinterpret_cast<const char*>(p), val.size());
    } else {
      const auto val = v.get_value();
      vs.assign(reinterpret_cast<const char*>(val.data()), val.size());
    }
    out.items.emplace_back(std::move(ks), std::move(vs));
    if (halt > 0 && static_cast<int>(out.items.size()) >= halt) {
      halted = true;
      ret = true;
      return;
    }
    ret = false;
  }

  bool compare_scan(const op& o, const scan_out& out,
                    const std::vector<std::pair<std::string, std::string>>& expect_full) {
    std::vector<std::pair<std::string, std::string>> expect = expect_full;
    if (o.halt > 0 && expect.size() > static_cast<std::size_t>(o.halt))
      expect.resize(static_cast<std::size_t>(o.halt));
    if (out.calls_after_halt != 0) {
      return !fail("C02", "visitor called " + std::to_string(out.calls_after_halt) +
                              " times after it returned true: " + op_to_text(o));
    }
    if (out.items == expect) return true;
    std::string msg = "scan output differs from the model interval: " + op_to_text(o) +
                      "; delivered " + std::to_string(out.items.size()) + " expected " +
                      std::to_string(expect.size());
    for (std::size_t i = 0; i < std::max(out.items.size(), expect.size()); ++i) {
      const bool a = i < out.items.size(), b = i < expect.size();
      if (a && b && out.items[i] == expect[i]) continue;
      msg += "; first difference at #" + std::to_string(i) + ": got " +
             (a ? to_hex(out.items[i].first) : std::string("<end>")) + " want " +
             (b ? to_hex(expect[i].first) : std::string("<end>"));
      if (a && b && out.items[i].first == expect[i].first) msg += " (value bytes differ)";
      break;
    }
    return !fail("C02", msg);
  }

  // C02 non-triviality (see DESIGN.md): bound not stored and the seek
  // descends below the root, or early halt, or descending range.
  bool scan_nontrivial(const op& o, std::size_t expect_size) {
    if (o.halt > 0 && static_cast<std::size_t>(o.halt) <= expect_size) return true;
    if (o.kind == SCAN_RANGE && o.key > o.key2) return true;
    if (o.kind == SCAN) return false;
    if (model.size() < 3 || model.count(o.key)) return false;
    const std::size_t root_pos = lcp(model.begin()->first, model.rbegin()->first);
    const std::size_t l = detail::max_lcp(model, o.key);
    if (l <= root_pos) return false;
    return detail::group_size(model, o.key, root_pos + 1) >= 2;
  }

  // documented precondition of byte-string keys: no key handed to the index
  // may be a proper prefix of a stored key or extend one
  bool bound_violates_precondition(const std::string& b) const {
    if constexpr (is_u64) {
      return false;
    } else {
      if (b.empty()) return true;
      auto it = model.lower_bound(b);
      if (it != model.end() && it->first != b && it->first.compare(0, b.size(), b) == 0) return true;
      for (std::size_t l = 1; l < b.size(); ++l)
        if (model.count(b.substr(0, l))) return true;
      return false;
    }
  }

  bool do_scan(const op& o) {
    if (o.kind != SCAN) {
      if (bound_violates_precondition(o.key) ||
          (o.kind == SCAN_RANGE && (bound_violates_precondition(o.key2) ||
                                    (o.key != o.key2 && prefix_related(o.key, o.key2))))) {
        if (st && opts.collect) st->inc("scan_skipped_precondition");
        return true;
      }
    }
    scan_out out;
    bool halted = false;
    std::vector<std::pair<std::string, std::string>> expect;
    auto fn = [&](const auto& v) {
      bool ret = false;
      deliver(out, v, o.halt, halted, ret);
      return ret;
    };
    if (o.kind == SCAN) {
      if (o.fwd)
        for (auto& e : model) expect.push_back(e);
      else
        for (auto it = model.rbegin(); it != model.rend(); ++it) expect.push_back(*it);
      call_scope cs;
      db->scan(fn, o.fwd);
    } else if (o.kind == SCAN_FROM) {
      if (o.fwd) {
        for (auto it = model.lower_bound(o.key); it != model.end(); ++it) expect.push_back(*it);
      } else {
        auto it = model.upper_bound(o.key);
        while (it != model.begin()) {
          --it;
          expect.push_back(*it);
        }
      }
      // keep the key bytes in a buffer of their own
      const std::string kb = o.key;
      call_scope cs;
      db->scan_from(mk_key(kb), fn, o.fwd);
    } else {
      if (o.key < o.key2) {
        for (auto it = model.lower_bound(o.key); it != model.end() && it->first < o.key2; ++it)
          expect.push_back(*it);
      } else if (o.key > o.key2) {
        auto it = model.upper_bound(o.key);
        while (it != model.begin()) {
          --it;
          if (!(it->first > o.key2)) break;
          expect.push_back(*it);
        }
      }
      // two slots of one arena, optionally swapped (C02: the result never
      // depends on where the caller's key buffers live)
      const std::size_t slot = std::max<std::size_t>(std::max(o.key.size(), o.key2.size()), 1);
      std::vector<char> arena(2 * slot + 2);
      char* a = arena.data();
      char* b = arena.data() + slot + 1;
      char* pf = o.swap_addr ? b : a;
      char* pt = o.swap_addr ? a : b;
      std::memcpy(pf, o.key.data(), o.key.size());
      std::memcpy(pt, o.key2.data(), o.key2.size());
      call_scope cs;
      if constexpr (is_u64) {
        db->scan_range(be_to_u64(o.key), be_to_u64(o.key2), fn);
      } else {
        db->scan_range(
            unodb::key_view{reinterpret_cast<const std::byte*>(pf), o.key.size()},
            unodb::key_view{reinterpret_cast<const std::byte*>(pt), o.key2.size()}, fn);
      }
    }
    if (opts.collect && scan_nontrivial(o, expect.size())) {
      ++vd.nontrivial_scans;
      if (st) {
        st->add_nontrivial(hash_combine(keyset_hash, hash_str(op_to_text(o))));
      }
    }
    if (opts.collect && st) {
      const char* kind = o.kind == SCAN ? "scan" : o.kind == SCAN_FROM ? "scan_from" : "scan_range";
      st->inc(std::string("scans.") + kind);
      if (!o.bclass.empty()) {
        if (o.kind == SCAN_RANGE) {
          // from-bound class x direction; the to-bound class separately
          const auto plus = o.bclass.find('+');
          st->inc("bound_class." + o.bclass.substr(0, plus) +
                  (o.key == o.key2 ? ".range_equal" : o.key < o.key2 ? ".range_asc" : ".range_desc"));
          if (plus != std::string::npos) st->inc("bound_class." + o.bclass.substr(plus + 1) + ".range_end");
        } else {
          st->inc("bound_class." + o.bclass + (o.fwd ? ".from_fwd" : ".from_rev"));
        }
      }
      if (o.halt > 0) st->inc("scans.with_halt");
    }
    return compare_scan(o, out, expect);
  }

  // ---- the interpreter --------------------------------------------------------
  void run(const scase& c) {
    auto& trk = alloc_tracker::get();
    trk.reset();
    db = std::make_unique<db_t>();
    for (std::size_t i = 0; i < c.ops.size() && vd.ok; ++i) {
      cur_op = static_cast<int>(i);
      const op& o = c.ops[i];
      op_created_or_grew = false;
      op_shrank_or_dissolved = false;
      if ((o.kind == INS || o.kind == REM || o.kind == GET || o.kind == INS_LONGVAL || o.kind == INS_LONGKEY) &&
          bound_violates_precondition(o.key)) {
        if (st && opts.collect) st->inc("op_skipped_precondition");
        continue;
      }
      switch (o.kind) {
        case INS: {
          if constexpr (!is_u64) {
            if (opts.k1_exclusion && !model.count(o.key) &&
                insert_needs_long_path(model, o.key)) {
              ++vd.k1_excluded;
              continue;
            }
          }
          const std::string val = make_value(o.vseed, o.vlen);
          counter_delta d;
          const bool absent = !model.count(o.key);
          if (absent) d = expected_insert_delta(model, o.key);
          bool r;
          if (opts.check_c08) {
            r = with_faults(o.key, "insert", [&] { return db->insert(mk_key(o.key), mk_val(val)); });
            if (!vd.ok) break;
          } else {
            call_scope cs;
            r = db->insert(mk_key(o.key), mk_val(val));
          }
          if (r != absent && opts.check_c08)
            fail("C08", "the un-faulted repeat of insert(" + to_hex(o.key) + ") did not return the normal result");
          if (r != absent) {
            fail("C01", "insert(" + to_hex(o.key) + ") returned " + (r ? "true" : "false") +
                            " but the key was " + (absent ? "absent" : "present"));
          }
          if (absent) {
            model[o.key] = val;
            keyset_hash ^= hash_str(o.key);
            for (std::size_t j = 0; j < 4; ++j) {
              exp_growing[j] += static_cast<std::uint64_t>(d.growing[j]);
              if (d.growing[j]) op_created_or_grew = true;
            }
            exp_splits += static_cast<std::uint64_t>(d.prefix_splits);
            if (d.transition != "add_to_nonfull" && d.transition != "root_leaf_created")
              vd.nontrivial_c01 = true;
            if (opts.collect && st) st->inc(std::string("transition.") + d.transition);
            note_keyset();
          }
          break;
        }
        case REM: {
          const bool present = model.count(o.key) != 0;
          if constexpr (!is_u64) {
            if (opts.k1_exclusion && present && remove_needs_long_path(model, o.key)) {
              ++vd.k1_excluded;
              continue;
            }
          }
          counter_delta d;
          if (present) {
            d = expected_remove_delta(model, o.key);
            drop_held(o.key);  // the view's lifetime ends with its entry
          }
          bool r;
          if (opts.check_c08) {
            r = with_faults(o.key, "remove", [&] { return db->remove(mk_key(o.key)); });
            if (!vd.ok) break;
          } else {
            call_scope cs;
            r = db->remove(mk_key(o.key));
          }
          if (r != present && opts.check_c08)
            fail("C08", "the un-faulted repeat of remove(" + to_hex(o.key) + ") did not return the normal result");
          if (r != present) {
            fail("C01", "remove(" + to_hex(o.key) + ") returned " + (r ? "true" : "false") +
                            " but the key was " + (present ? "present" : "absent"));
          }
          if (present) {
            model.erase(o.key);
            keyset_hash ^= hash_str(o.key);
            for (std::size_t j = 0; j < 4; ++j) {
              exp_shrinking[j] += static_cast<std::uint64_t>(d.shrinking[j]);
              if (d.shrinking[j]) op_shrank_or_dissolved = true;
            }
            if (d.transition != "remove_from_nonmin" && d.transition != "root_leaf_removed")
              vd.nontrivial_c01 = true;
            if (opts.collect && st) st->inc(std::string("transition.") + d.transition);
            note_keyset();
          }
          break;
        }
        case GET: {
          const auto it = model.find(o.key);
          const std::byte* p = nullptr;
          std::size_t n = 0;
          bool found = false;
          {
            call_scope cs;
            if constexpr (is_mutex) {
              auto res = db->get(mk_key(o.key));
              found = res.first.has_value();
              if (found != res.second.owns_lock())
                fail("C01", "mutex_db::get lock ownership does not match hit/miss");
              if (found) {
                p = res.first->data();
                n = res.first->size();
              }
              // the lock is released here (pinning is C13's subject)
            } else if constexpr (is_olc) {
              auto res = db->get(mk_key(o.key));
              found = res.has_value();
              if (found) {
                p = res->begin().get();
                n = res->size();
              }
            } else {
              auto res = db->get(mk_key(o.key));
              found = res.has_value();
              if (found) {
                p = res->data();
                n = res->size();
              }
            }
          }
          if (found != (it != model.end())) {
            fail("C01", "get(" + to_hex(o.key) + ") " + (found ? "found" : "missed") +
                            " a key that is " + (it != model.end() ? "present" : "absent"));
          } else if (found) {
            if (n != it->second.size() ||
                (n != 0 && std::memcmp(p, it->second.data(), n) != 0)) {
              fail("C01", "get(" + to_hex(o.key) + ") returned bytes that differ from the inserted value");
            } else {
              held.push_back({o.key, p, n, it->second});
              if (held.size() > 64) held.erase(held.begin());
            }
          }
          break;
        }
        case EMPTY: {
          bool e;
          {
            call_scope cs;
            e = db->empty();
          }
          if (e != model.empty())
            fail("C01", std::string("empty() returned ") + (e ? "true" : "false") + " with " +
                            std::to_string(model.size()) + " entries");
          break;
        }
        case CLEAR: {
          held.clear();
          if (model.size() >= 2) op_shrank_or_dissolved = true;  // inner nodes are dissolved
          {
            call_scope cs;
            db->clear();
          }
          model.clear();
          keyset_hash = 0;
          // clear() resets the statistics of the nodes, not the counters
          break;
        }
        case QUIESCE: {
          if constexpr (is_olc) {
            held.clear();  // lifetime granted by the statement ends here
            unodb::this_thread().quiescent();
          }
          break;
        }
        case RELOAD:
          check_reload();
          break;
        case INS_LONGVAL:
        case INS_LONGKEY:
          if (opts.check_c08) long_input(o);
          break;
        case SCAN:
        case SCAN_FROM:
        case SCAN_RANGE:
          do_scan(o);
          break;
      }
      if (!vd.ok) break;
      if (!recheck_held()) break;
      if (o.kind == INS || o.kind == REM || o.kind == CLEAR || o.kind == RELOAD || i == 0) {
        if (!check_c10("after op")) break;
      }
    }
    // final sweep: every model key readable, nothing else
    if (vd.ok && opts.check_c01) {
      cur_op = static_cast<int>(c.ops.size());
      for (auto& e : model) {
        bool found = false;
        std::string got;
        if constexpr (is_mutex) {
          auto res = db->get(mk_key(e.first));
          found = res.first.has_value();
          if (found) got.assign(reinterpret_cast<const char*>(res.first->data()), res.first->size());
        } else if constexpr (is_olc) {
          auto res = db->get(mk_key(e.first));
          found = res.has_value();
          if (found) got.assign(reinterpret_cast<const char*>(res->begin().get()), res->size());
        } else {
          auto res = db->get(mk_key(e.first));
          found = res.has_value();
          if (found) got.assign(reinterpret_cast<const char*>(res->data()), res->size());
        }
        if (!found || got != e.second) {
          fail("C01", "final sweep: key " + to_hex(e.first) + (found ? " has wrong value" : " is missing"));
          break;
        }
      }
    }
    held.clear();
    const bool was_ok = vd.ok;
    {
      call_scope cs;
      db.reset();
    }
    if constexpr (is_olc) {
      unodb::this_thread().quiescent();
      unodb::this_thread().quiescent();
    }
    if (was_ok && opts.check_c10 && !trk.live.empty()) {
      cur_op = static_cast<int>(c.ops.size());
      fail("C10", "destroying the index left " + std::to_string(trk.live.size()) +
                      " blocks (" + std::to_string(trk.live_bytes) + " bytes) allocated");
    }
    trk.reset();
  }
};

template <int CFG>
void run_case_impl(const scase& c, const run_opts& o, verdict& v, stats* s) {
  runner<CFG> r(o, v, s);
  r.run(c);
}

}  // namespace verif::seq

#endif
