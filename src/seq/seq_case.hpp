// Sequential-history cases: representation, text (replay) format.
#ifndef VERIF_SEQ_CASE_HPP
#define VERIF_SEQ_CASE_HPP

#include <string>
#include <vector>

#include "../common/model.hpp"
#include "../common/vcommon.hpp"

namespace verif::seq {

enum cfg_id { DB_U64 = 0, MUTEX_U64, OLC_U64, DB_KV, MUTEX_KV, OLC_KV, CFG_COUNT };
inline const char* cfg_name(int c) {
  static const char* n[] = {"db_u64", "mutex_u64", "olc_u64",
                            "db_kv", "mutex_kv", "olc_kv"};
  return n[c];
}
inline int cfg_from_name(const std::string& s) {
  for (int i = 0; i < CFG_COUNT; ++i)
    if (s == cfg_name(i)) return i;
  return -1;
}
inline bool cfg_is_u64(int c) { return c < 3; }
inline bool cfg_is_olc(int c) { return c == OLC_U64 || c == OLC_KV; }

enum op_kind { INS, REM, GET, EMPTY, CLEAR, QUIESCE, SCAN, SCAN_FROM, SCAN_RANGE, RELOAD, INS_LONGVAL, INS_LONGKEY };

struct op {
  op_kind kind = GET;
  std::string key;       // binary-comparable key bytes (u64: 8 bytes BE)
  std::string key2;      // scan_range: to-key
  std::uint32_t vlen = 0;
  std::uint32_t vseed = 0;
  bool fwd = true;
  int halt = -1;         // visitor returns true at this (1-based) call; -1 never
  bool swap_addr = false;  // scan_range: place the two key buffers swapped
  std::string bclass;    // bound class (evidence only)
};

struct scase {
  int cfg = DB_U64;
  std::vector<op> ops;
};

inline std::string op_to_text(const op& o) {
  std::ostringstream s;
  switch (o.kind) {
    case INS: s << "ins " << to_hex(o.key) << ' ' << o.vlen << ' ' << o.vseed; break;
    case REM: s << "rem " << to_hex(o.key); break;
    case GET: s << "get " << to_hex(o.key); break;
    case EMPTY: s << "empty"; break;
    case CLEAR: s << "clear"; break;
    case QUIESCE: s << "q"; break;
    case RELOAD: s << "reload"; break;
    case INS_LONGVAL: s << "inslongval " << to_hex(o.key); break;
    case INS_LONGKEY: s << "inslongkey " << to_hex(o.key); break;
    case SCAN: s << "scan " << (o.fwd ? 1 : 0) << ' ' << o.halt; break;
    case SCAN_FROM:
      s << "scanfrom " << to_hex(o.key) << ' ' << (o.fwd ? 1 : 0) << ' ' << o.halt
        << ' ' << (o.bclass.empty() ? "-" : o.bclass);
      break;
    case SCAN_RANGE:
      s << "scanrange " << to_hex(o.key) << ' ' << to_hex(o.key2) << ' ' << o.halt
        << ' ' << (o.swap_addr ? 1 : 0) << ' ' << (o.bclass.empty() ? "-" : o.bclass);
      break;
  }
  return s.str();
}

inline std::string case_to_text(const scase& c) {
  std::string t = std::string("cfg ") + cfg_name(c.cfg) + "\n";
  for (auto& o : c.ops) t += op_to_text(o) + "\n";
  return t;
}

inline bool case_from_text(const std::string& text, scase& c) {
  std::istringstream is(text);
  std::string line;
  c.ops.clear();
  while (std::getline(is, line)) {
    auto t = split_ws(line);
    if (t.empty() || t[0][0] == '#') continue;
    op o;
    if (t[0] == "cfg" && t.size() >= 2) {
      c.cfg = cfg_from_name(t[1]);
      if (c.cfg < 0) return false;
      continue;
    } else if (t[0] == "ins" && t.size() >= 4) {
      o.kind = INS;
      o.key = from_hex(t[1]);
      o.vlen = static_cast<std::uint32_t>(std::stoul(t[2]));
      o.vseed = static_cast<std::uint32_t>(std::stoul(t[3]));
    } else if (t[0] == "rem" && t.size() >= 2) {
      o.kind = REM;
      o.key = from_hex(t[1]);
    } else if (t[0] == "get" && t.size() >= 2) {
      o.kind = GET;
      o.key = from_hex(t[1]);
    } else if (t[0] == "empty") {
      o.kind = EMPTY;
    } else if (t[0] == "clear") {
      o.kind = CLEAR;
    } else if (t[0] == "q") {
      o.kind = QUIESCE;
    } else if (t[0] == "reload") {
      o.kind = RELOAD;
    } else if (t[0] == "inslongval" && t.size() >= 2) {
      o.kind = INS_LONGVAL;
      o.key = from_hex(t[1]);
    } else if (t[0] == "inslongkey" && t.size() >= 2) {
      o.kind = INS_LONGKEY;
      o.key = from_hex(t[1]);
    } else if (t[0] == "scan" && t.size() >= 3) {
      o.kind = SCAN;
      o.fwd = t[1] == "1";
      o.halt = std::stoi(t[2]);
    } else if (t[0] == "scanfrom" && t.size() >= 4) {
      o.kind = SCAN_FROM;
      o.key = from_hex(t[1]);
      o.fwd = t[2] == "1";
      o.halt = std::stoi(t[3]);
      if (t.size() >= 5 && t[4] != "-") o.bclass = t[4];
    } else if (t[0] == "scanrange" && t.size() >= 5) {
      o.kind = SCAN_RANGE;
      o.key = from_hex(t[1]);
      o.key2 = from_hex(t[2]);
      o.halt = std::stoi(t[3]);
      o.swap_addr = t[4] == "1";
      if (t.size() >= 6 && t[5] != "-") o.bclass = t[5];
    } else {
      return false;
    }
    c.ops.push_back(o);
  }
  return true;
}

inline std::uint64_t case_hash(const scase& c) {
  return hash_str(case_to_text(c));
}

// What the run is for: selects which oracle failures are fatal and what is
// measured.
struct run_opts {
  bool check_c01 = true;   // point-operation results, held views
  bool check_c02 = true;   // scan output
  bool check_c10 = true;   // shape / statistics / memory accounting
  bool check_c08 = false;  // fault enumeration around every mutating operation
  bool c08_fatal = true;   // false: run the fault loops but report only a lock left held (C14's use)
  bool k1_exclusion = true;
  bool collect = false;    // collect class histograms
};

struct verdict {
  bool ok = true;
  std::string prop;      // C01 / C02 / C10
  std::string message;
  int op_index = -1;
  // measurements of this run
  bool nontrivial_c01 = false;   // >= 1 structural transition
  unsigned nontrivial_scans = 0; // scans that are non-trivial per C02's rule
  unsigned k1_excluded = 0;
  bool revisited_keyset = false;
  unsigned faults = 0;            // injected faults verified
  unsigned faults_k2plus = 0;     // ... that failed the 2nd or a later allocation
};

}  // namespace verif::seq

#endif
