// Driver of the sequential-history harness (C01, C02, C10).
//
//   seq --prop C01 --seed N --cases M --size S [--cfgs 0,3] --out stats.json
//       --fail-dir DIR [--no-k1]
//   seq --prop C01 --replay FILE [--no-k1]     exit 0 = holds, 42 = violated,
//                                              anything else = crash
//
// Generation is a pure function of (--seed, case index). All cases run in a
// forked child; on a failure or crash the parent re-generates the failing
// case, confirms it, shrinks it (delta debugging over operations, every
// candidate in a forked child so crashes are handled like oracle failures)
// and writes the shrunk case to --fail-dir.
#include <fcntl.h>
#include <signal.h>
#include <sys/mman.h>
#include <sys/resource.h>
#include <sys/time.h>
#include <sys/wait.h>
#include <unistd.h>

#include <iostream>

#include "seq_case.hpp"
#include "seq_gen.hpp"

namespace verif::seq {
void run_case_cfg0(const scase&, const run_opts&, verdict&, stats*);
void run_case_cfg1(const scase&, const run_opts&, verdict&, stats*);
void run_case_cfg2(const scase&, const run_opts&, verdict&, stats*);
void run_case_cfg3(const scase&, const run_opts&, verdict&, stats*);
void run_case_cfg4(const scase&, const run_opts&, verdict&, stats*);
void run_case_cfg5(const scase&, const run_opts&, verdict&, stats*);
void install_alloc_tracker();

static void run_case(const scase& c, const run_opts& o, verdict& v, stats* s) {
  switch (c.cfg) {
    case 0: run_case_cfg0(c, o, v, s); break;
    case 1: run_case_cfg1(c, o, v, s); break;
    case 2: run_case_cfg2(c, o, v, s); break;
    case 3: run_case_cfg3(c, o, v, s); break;
    case 4: run_case_cfg4(c, o, v, s); break;
    default: run_case_cfg5(c, o, v, s); break;
  }
}
}  // namespace verif::seq

using namespace verif;
using namespace verif::seq;

static const int EXIT_VIOLATED = 42;
static const int CPU_LIMIT_S = 60;  // CPU time, not wall clock: load-independent

static void arm_cpu_timer() {
  struct itimerval tv {};
  tv.it_value.tv_sec = CPU_LIMIT_S;
  setitimer(ITIMER_VIRTUAL, &tv, nullptr);
}

struct forked_result {
  enum { PASS, FAIL, CRASH } kind = PASS;
  std::string message;  // oracle message, or crash description
  std::string prop;
};

// Run one case in a forked child.
static forked_result run_forked(const scase& c, const run_opts& o, bool quiet) {
  int fds[2];
  if (pipe(fds) != 0) std::abort();
  std::fflush(nullptr);
  const pid_t pid = fork();
  if (pid == 0) {
    close(fds[0]);
    if (quiet) {
      const int dn = open("/dev/null", 1);
      if (dn >= 0) {
        dup2(dn, 2);
      }
    }
    arm_cpu_timer();
    verdict v;
    run_case(c, o, v, nullptr);
    if (!v.ok) {
      const std::string m = v.prop + " op#" + std::to_string(v.op_index) + " " + v.message;
      (void)!write(fds[1], m.data(), m.size());
      _exit(EXIT_VIOLATED);
    }
    _exit(0);
  }
  close(fds[1]);
  std::string msg;
  char buf[4096];
  ssize_t n;
  while ((n = read(fds[0], buf, sizeof buf)) > 0) msg.append(buf, static_cast<std::size_t>(n));
  close(fds[0]);
  int status = 0;
  waitpid(pid, &status, 0);
  forked_result r;
  if (WIFEXITED(status) && WEXITSTATUS(status) == 0) {
    r.kind = forked_result::PASS;
  } else if (WIFEXITED(status) && WEXITSTATUS(status) == EXIT_VIOLATED) {
    r.kind = forked_result::FAIL;
    r.message = msg;
    r.prop = msg.substr(0, 3);
  } else {
    r.kind = forked_result::CRASH;
    if (WIFSIGNALED(status)) {
      const int sig = WTERMSIG(status);
      r.message = sig == SIGVTALRM
                      ? "hang: the case did not finish within " + std::to_string(CPU_LIMIT_S) + " s of CPU time"
                      : "crash: killed by signal " + std::to_string(sig) +
                            (sig == SIGABRT ? " (assertion / abort)" : sig == SIGSEGV ? " (SIGSEGV)" : "");
    } else if (WEXITSTATUS(status) == 43) {
      r.message = "a node or root lock was left held: a single-threaded operation reached a spin-wait";
    } else {
      r.message = "crash: exit status " + std::to_string(WEXITSTATUS(status)) + " (sanitizer report)";
    }
  }
  return r;
}

static bool same_failure(const forked_result& a, const forked_result& b) {
  if (a.kind != b.kind) return false;
  if (a.kind == forked_result::FAIL) return a.prop == b.prop;
  return true;
}

// Delta debugging over the operation list.
static scase shrink(const scase& c0, const run_opts& o, const forked_result& orig, unsigned& runs) {
  scase c = c0;
  std::size_t chunk = std::max<std::size_t>(c.ops.size() / 2, 1);
  while (true) {
    bool removed_any = false;
    for (std::size_t start = 0; start < c.ops.size();) {
      scase cand = c;
      const std::size_t end = std::min(start + chunk, cand.ops.size());
      cand.ops.erase(cand.ops.begin() + static_cast<long>(start), cand.ops.begin() + static_cast<long>(end));
      ++runs;
      if (!cand.ops.empty() && same_failure(run_forked(cand, o, true), orig)) {
        c = cand;
        removed_any = true;
      } else {
        start += chunk;
      }
      if (runs > 20000) return c;
    }
    if (chunk == 1 && !removed_any) break;
    if (!removed_any) chunk = std::max<std::size_t>(chunk / 2, 1);
  }
  // simplify values
  for (auto& op_ : c.ops) {
    if (op_.kind == INS && op_.vlen > 1) {
      scase cand = c;
      for (auto& o2 : cand.ops)
        if (&op_ - &c.ops[0] == &o2 - &cand.ops[0]) o2.vlen = 1;
      ++runs;
      if (same_failure(run_forked(cand, o, true), orig)) op_.vlen = 1;
    }
  }
  return c;
}

struct shared_page {
  volatile std::uint64_t cur_index;
  volatile std::uint64_t done;
};

int main(int argc, char** argv) {
  args a(argc, argv);
  install_alloc_tracker();
  const std::string prop = a.str("prop", "C01");
  run_opts o;
  o.check_c01 = prop == "C01" || prop == "all";
  o.check_c02 = prop == "C02" || prop == "all";
  o.check_c10 = prop == "C10" || prop == "all";
  o.check_c08 = prop == "C08" || prop == "C14";
  o.c08_fatal = prop == "C08";   // C14: only "a lock was left held after a failed operation" (process exit 43) counts
  o.k1_exclusion = !a.has("no-k1");
  o.collect = true;

  if (a.has("replay")) {
    scase c;
    if (!case_from_text(read_file(a.str("replay")), c)) {
      std::cerr << "cannot parse replay file\n";
      return 2;
    }
    arm_cpu_timer();
    verdict v;
    run_case(c, o, v, nullptr);
    if (!v.ok) {
      std::cout << "FAIL " << v.prop << " op#" << v.op_index << " " << v.message << "\n";
      return EXIT_VIOLATED;
    }
    std::cout << "PASS\n";
    return 0;
  }

  if (a.has("shrink")) {
    // confirm + shrink a case found elsewhere (libFuzzer artifact); writes FILE.shrunk
    scase c;
    if (!case_from_text(read_file(a.str("shrink")), c)) return 2;
    o.collect = false;
    forked_result fr = run_forked(c, o, true);
    if (fr.kind == forked_result::PASS) {
      std::cout << "PASS\n";
      return 0;
    }
    unsigned runs = 0;
    scase small = shrink(c, o, fr, runs);
    forked_result fr2 = run_forked(small, o, true);
    if (fr2.kind == forked_result::PASS) {
      small = c;
      fr2 = fr;
    }
    write_file(a.str("shrink") + ".shrunk", "# property " + prop + " violated: " + fr2.message + "\n# found by libFuzzer, shrunk from " +
                                                std::to_string(c.ops.size()) + " to " + std::to_string(small.ops.size()) + " operations\n" +
                                                case_to_text(small));
    std::cout << "FAILURE " << a.str("shrink") + ".shrunk" << " :: " << fr2.message << "\n";
    return 1;
  }
  const std::uint64_t seed = a.u64("seed", 1);
  const std::uint64_t cases = a.u64("cases", 100);
  gen_params gp;
  gp.size = static_cast<unsigned>(a.u64("size", 200));
  gp.fl = prop == "C02" ? F_SCAN : prop == "C10" ? F_SHAPE : (prop == "C08" || prop == "C14") ? F_FAULT : F_POINT;
  std::vector<int> cfgs;
  {
    std::string s = a.str("cfgs", "0,1,2,3,4,5");
    std::istringstream is(s);
    std::string t;
    while (std::getline(is, t, ',')) cfgs.push_back(std::stoi(t));
  }
  const std::string out = a.str("out", "");
  const std::string fail_dir = a.str("fail-dir", ".");

  auto* sp = static_cast<shared_page*>(
      mmap(nullptr, 4096, PROT_READ | PROT_WRITE, MAP_SHARED | MAP_ANONYMOUS, -1, 0));
  sp->cur_index = 0;
  sp->done = 0;

  auto gen_case = [&](std::uint64_t i, stats* st) {
    vrng r(hash_combine(seed, i));
    const int cfg = cfgs[i % cfgs.size()];
    return generate_case(r, cfg, gp, st);
  };

  std::fflush(nullptr);
  const pid_t pid = fork();
  if (pid == 0) {
    stats st;
    for (std::uint64_t i = 0; i < cases; ++i) {
      sp->cur_index = i;
      scase c = gen_case(i, &st);
      arm_cpu_timer();
      verdict v;
      run_case(c, o, v, &st);
      st.inc("cases");
      st.inc(std::string("cases.") + cfg_name(c.cfg));
      st.inc("ops", c.ops.size());
      st.inc("k1_excluded_ops", v.k1_excluded);
      if (v.k1_excluded) st.inc("cases_with_k1_exclusion");
      st.inc("faults", v.faults);
      st.inc("faults_k2plus", v.faults_k2plus);
      if (prop == "C08" || prop == "C14") {
        if (v.faults_k2plus) st.add_nontrivial(case_hash(c));
      } else if (prop == "C02") {
        st.inc("nontrivial_scans", v.nontrivial_scans);
      } else if (prop == "C10") {
        if (v.nontrivial_c01 && v.revisited_keyset) st.add_nontrivial(case_hash(c));
        if (v.revisited_keyset) st.inc("cases_revisiting_a_key_set");
      } else {
        if (v.nontrivial_c01) st.add_nontrivial(case_hash(c));
      }
      if (i < 3 || (i % 997) == 0) {
        std::string t = case_to_text(c);
        if (t.size() > 1500) t = t.substr(0, 1500) + "... (" + std::to_string(c.ops.size()) + " ops)";
        st.add_sample(t);
      }
      if (!v.ok) {
        if (!out.empty()) st.write(out);
        _exit(EXIT_VIOLATED);
      }
    }
    sp->done = 1;
    if (!out.empty()) st.write(out);
    _exit(0);
  }
  int status = 0;
  waitpid(pid, &status, 0);
  if (WIFEXITED(status) && WEXITSTATUS(status) == 0 && sp->done) return 0;

  // failure: re-generate, confirm, shrink
  const std::uint64_t idx = sp->cur_index;
  scase c = gen_case(idx, nullptr);
  o.collect = false;
  forked_result fr = run_forked(c, o, true);
  if (fr.kind == forked_result::PASS) {
    std::cout << "UNREPRODUCIBLE seed=" << seed << " case=" << idx << " status=" << status << "\n";
    return 3;
  }
  unsigned runs = 0;
  scase small = shrink(c, o, fr, runs);
  forked_result fr2 = run_forked(small, o, true);
  if (fr2.kind == forked_result::PASS) {  // should not happen
    small = c;
    fr2 = fr;
  }
  std::string path = fail_dir + "/" + prop + "_seed" + std::to_string(seed) + "_case" + std::to_string(idx) + ".txt";
  std::string text = "# property " + prop + " violated: " + fr2.message + "\n# found by seed=" +
                     std::to_string(seed) + " case=" + std::to_string(idx) + ", shrunk from " +
                     std::to_string(c.ops.size()) + " to " + std::to_string(small.ops.size()) +
                     " operations in " + std::to_string(runs) + " runs\n" + case_to_text(small);
  write_file(path, text);
  std::cout << "FAILURE " << path << " :: " << fr2.message << "\n";
  return 1;
}
