// libFuzzer target (second engine for C01 / C02 / C10): the bytes are decoded
// structurally into (configuration, key universe, operation history incl. scan
// queries) and interpreted by the same runner and oracles as the generated
// histories. The semantic oracle is inside the target; a failure writes the
// decoded history as text (the replay unit for `seq --replay/--shrink`) and traps.
//
//   env VERIF_FUZZ_PROP = C01 | C02 | C10 | all   which oracle failures are fatal
//   env VERIF_FUZZ_OUT  = directory for fuzz_fail_*.txt / last_case.txt
//   env VERIF_FUZZ_DUMP = 1  write the decoded case to last_case.txt before running it
#include <fuzzer/FuzzedDataProvider.h>

#include <cstdlib>

#include "seq_case.hpp"
#include "seq_gen.hpp"

namespace verif::seq {
void run_case_cfg0(const scase&, const run_opts&, verdict&, stats*);
void run_case_cfg1(const scase&, const run_opts&, verdict&, stats*);
void run_case_cfg2(const scase&, const run_opts&, verdict&, stats*);
void run_case_cfg3(const scase&, const run_opts&, verdict&, stats*);
void run_case_cfg4(const scase&, const run_opts&, verdict&, stats*);
void run_case_cfg5(const scase&, const run_opts&, verdict&, stats*);
void install_alloc_tracker();
}  // namespace verif::seq

using namespace verif;
using namespace verif::seq;

namespace {
bool decode(const uint8_t* data, size_t size, scase& c) {
  FuzzedDataProvider fdp(data, size);
  c.cfg = fdp.ConsumeIntegralInRange<int>(0, 5);
  const bool u64 = cfg_is_u64(c.cfg);
  // the universe comes from a PRNG seeded by input bytes (structure-aware:
  // the fuzzer mutates the seed, the size and the operation stream)
  vrng r(fdp.ConsumeIntegral<std::uint32_t>());
  const unsigned usize = fdp.ConsumeIntegralInRange<unsigned>(2, 90);
  universe u = u64 ? gen_universe_u64(r, usize) : gen_universe_bytes(r, usize);
  if (u.keys.empty()) return false;
  kvmap model;  // keys only, for bound generation and K1 synchronisation
  std::uint32_t vseed = 1;
  while (fdp.remaining_bytes() > 0 && c.ops.size() < 400) {
    const unsigned k = fdp.ConsumeIntegralInRange<unsigned>(0, 15);
    op o;
    const std::string& key = u.keys[fdp.ConsumeIntegralInRange<std::size_t>(0, u.keys.size() - 1)];
    if (k < 5) {
      o.kind = INS;
      o.key = key;
      static const std::uint32_t lens[] = {0, 1, 2, 7, 8, 9, 31, 32, 33, 255, 256, 4096};
      o.vlen = lens[fdp.ConsumeIntegralInRange<unsigned>(0, 11)];
      o.vseed = vseed++;
      if (u64 || model.count(key) || !insert_needs_long_path(model, key)) model[key];
    } else if (k < 9) {
      o.kind = REM;
      o.key = key;
      if (u64 || !model.count(key) || !remove_needs_long_path(model, key)) model.erase(key);
    } else if (k < 11) {
      o.kind = GET;
      o.key = key;
    } else if (k == 11) {
      o.kind = fdp.ConsumeBool() ? EMPTY : (fdp.ConsumeIntegralInRange<unsigned>(0, 9) == 0 ? CLEAR : QUIESCE);
      if (o.kind == CLEAR) model.clear();
    } else if (k == 12) {
      o.kind = RELOAD;
    } else {
      // scan query: bound classes are chosen by a PRNG seeded from the input
      vrng br(fdp.ConsumeIntegral<std::uint16_t>());
      std::vector<op> batch;
      gen_scan_batch(br, u, model, 1, batch, nullptr);
      for (auto& b : batch) c.ops.push_back(b);
      continue;
    }
    c.ops.push_back(o);
  }
  return !c.ops.empty();
}
}  // namespace

extern "C" int LLVMFuzzerTestOneInput(const uint8_t* data, size_t size) {
  static const bool init = (install_alloc_tracker(), true);
  (void)init;
  static const std::string prop = std::getenv("VERIF_FUZZ_PROP") ? std::getenv("VERIF_FUZZ_PROP") : "all";
  static const std::string outdir = std::getenv("VERIF_FUZZ_OUT") ? std::getenv("VERIF_FUZZ_OUT") : ".";
  static const bool dump = std::getenv("VERIF_FUZZ_DUMP") != nullptr;
  scase c;
  if (!decode(data, size, c)) return 0;
  if (dump) write_file(outdir + "/last_case.txt", case_to_text(c));
  run_opts o;
  o.check_c01 = prop == "C01" || prop == "all";
  o.check_c02 = prop == "C02" || prop == "all";
  o.check_c10 = prop == "C10" || prop == "all";
  verdict v;
  switch (c.cfg) {
    case 0: run_case_cfg0(c, o, v, nullptr); break;
    case 1: run_case_cfg1(c, o, v, nullptr); break;
    case 2: run_case_cfg2(c, o, v, nullptr); break;
    case 3: run_case_cfg3(c, o, v, nullptr); break;
    case 4: run_case_cfg4(c, o, v, nullptr); break;
    default: run_case_cfg5(c, o, v, nullptr); break;
  }
  if (!v.ok) {
    const std::string path = outdir + "/fuzz_fail_" + std::to_string(case_hash(c)) + ".txt";
    write_file(path, "# libFuzzer: property " + v.prop + " violated: op#" + std::to_string(v.op_index) + " " + v.message + "\n" + case_to_text(c));
    __builtin_trap();
  }
  return 0;
}
