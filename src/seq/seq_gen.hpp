// Generators of sequential histories (C01 / C02 / C10 flavours).
#ifndef VERIF_SEQ_GEN_HPP
#define VERIF_SEQ_GEN_HPP

#include "seq_case.hpp"

namespace verif::seq {

enum flavour { F_POINT, F_SCAN, F_SHAPE, F_FAULT };

struct gen_params {
  flavour fl = F_POINT;
  unsigned size = 200;  // upper bound for universe size; ops scale with it
  bool short_keys = false;  // byte-string keys of at most 8 bytes
};

namespace gdetail {

inline std::string neighbour_u64(const std::string& k, int d) {
  const std::uint64_t v = be_to_u64(k);
  return u64_to_be(v + static_cast<std::uint64_t>(d));
}

// bytes at position pos among stored keys sharing k[0..pos)
inline std::vector<unsigned> child_bytes(const kvmap& m, const std::string& k, std::size_t pos) {
  std::vector<unsigned> r;
  const std::string pre = k.substr(0, pos);
  int last = -1;
  for (auto it = m.lower_bound(pre); it != m.end() && it->first.compare(0, pos, pre) == 0; ++it) {
    if (it->first.size() <= pos) continue;
    const int b = static_cast<unsigned char>(it->first[pos]);
    if (b != last) {
      r.push_back(static_cast<unsigned>(b));
      last = b;
    }
  }
  return r;
}

inline bool probe_ok_bytes(const kvmap& m, const std::string& p) {
  if (p.empty()) return false;
  // neither a proper prefix of a stored key nor extending one (equality is
  // fine: then it is a stored key)
  auto it = m.lower_bound(p);
  if (it != m.end() && it->first != p && it->first.compare(0, p.size(), p) == 0) return false;
  if (it != m.begin()) {
    auto pv = it;
    --pv;
    if (pv->first != p && p.compare(0, pv->first.size(), pv->first) == 0) return false;
  }
  // keys that are prefixes of p sort before p; the closest one need not be
  // the immediate predecessor, so check every proper prefix of p
  for (std::size_t l = 1; l < p.size(); ++l)
    if (m.count(p.substr(0, l))) return false;
  return true;
}

}  // namespace gdetail

// A bound for scan_from / scan_range, by named class.
inline bool gen_bound(vrng& r, const universe& u, const kvmap& model, std::string& out,
                      std::string& bclass) {
  const bool u64 = u.u64;
  for (int attempt = 0; attempt < 8; ++attempt) {
    const unsigned c = static_cast<unsigned>(r.below(10));
    std::string b;
    if (c == 0 || model.empty()) {
      // 0 / max (byte strings: a universe key)
      if (u64) {
        b = r.chance(1, 2) ? u64_to_be(0) : u64_to_be(~0ULL);
        bclass = "zero_or_max";
      } else {
        b = r.pick(u.keys);
        bclass = "universe_key";
      }
    } else if (c <= 2) {
      auto it = model.begin();
      std::advance(it, static_cast<long>(r.below(model.size())));
      b = it->first;
      bclass = "stored";
    } else if (c == 3) {
      b = r.pick(u.keys);
      bclass = model.count(b) ? "stored" : "universe_absent";
    } else if (c == 4 && u64) {
      auto it = model.begin();
      std::advance(it, static_cast<long>(r.below(model.size())));
      b = gdetail::neighbour_u64(it->first, r.chance(1, 2) ? 1 : -1);
      bclass = "neighbour";
    } else {
      // leave-the-tree probe: stored key k, depth d on its path, byte d
      // replaced, tail rewritten
      auto it = model.begin();
      std::advance(it, static_cast<long>(r.below(model.size())));
      b = it->first;
      const std::size_t len = b.size();
      // choose d among positions where the tree actually branches on k's
      // path half of the time, any position otherwise
      std::size_t d = r.below(len);
      if (r.chance(2, 3)) {
        std::vector<std::size_t> branch;
        for (std::size_t p = 0; p < len; ++p)
          if (gdetail::child_bytes(model, b, p).size() >= 2) branch.push_back(p);
        if (!branch.empty()) d = r.pick(branch);
      }
      const auto cb = gdetail::child_bytes(model, b, d);
      unsigned nb = 0;
      const unsigned how = static_cast<unsigned>(r.below(6));
      const char* hn = "";
      switch (how) {
        case 0:
          if (cb.front() == 0) continue;
          nb = cb.front() - 1;
          hn = "below_min";
          break;
        case 1:
          if (cb.back() == 255) continue;
          nb = cb.back() + 1;
          hn = "above_max";
          break;
        case 2: {
          // a gap between two children
          std::vector<unsigned> gaps;
          for (std::size_t i = 0; i + 1 < cb.size(); ++i)
            if (cb[i] + 1 < cb[i + 1]) gaps.push_back(cb[i] + 1 + static_cast<unsigned>(r.below(cb[i + 1] - cb[i] - 1)));
          if (gaps.empty()) continue;
          nb = r.pick(gaps);
          hn = "gap";
          break;
        }
        case 3:
          nb = 0;
          hn = "byte00";
          break;
        case 4:
          nb = 255;
          hn = "byteff";
          break;
        default:
          nb = static_cast<unsigned>(r.below(256));
          hn = "random_byte";
          break;
      }
      b[d] = static_cast<char>(nb);
      const unsigned tail = static_cast<unsigned>(r.below(4));
      for (std::size_t p = d + 1; p < len; ++p) {
        if (tail == 0) b[p] = '\0';
        else if (tail == 1) b[p] = static_cast<char>(0xFF);
        else if (tail == 2) b[p] = static_cast<char>(r.below(256));
      }
      bclass = std::string("leave_tree_") + hn;
      if (model.count(b)) bclass = "stored";
    }
    if (!u64 && !gdetail::probe_ok_bytes(model, b)) continue;  // counted by caller
    out = b;
    return true;
  }
  return false;
}

inline int gen_halt(vrng& r, std::size_t model_size) {
  const unsigned c = static_cast<unsigned>(r.below(10));
  if (c < 5) return -1;
  if (c == 5) return 1;
  if (c == 6) return 2;
  if (model_size == 0) return 1;
  if (c == 7) return static_cast<int>(1 + model_size / 2);
  if (c == 8) return static_cast<int>(model_size);
  return static_cast<int>(1 + r.below(model_size));
}

inline void gen_scan_batch(vrng& r, const universe& u, const kvmap& model, unsigned n,
                           std::vector<op>& ops, stats* st) {
  for (unsigned i = 0; i < n; ++i) {
    op o;
    const unsigned k = static_cast<unsigned>(r.below(10));
    if (k == 0) {
      o.kind = SCAN;
      o.fwd = r.chance(1, 2);
      o.halt = gen_halt(r, model.size());
      ops.push_back(o);
    } else if (k <= 5) {
      o.kind = SCAN_FROM;
      if (!gen_bound(r, u, model, o.key, o.bclass)) {
        if (st) st->inc("bound_rejected_not_prefix_free");
        continue;
      }
      o.fwd = r.chance(1, 2);
      o.halt = gen_halt(r, model.size());
      ops.push_back(o);
    } else {
      o.kind = SCAN_RANGE;
      std::string c1, c2;
      if (!gen_bound(r, u, model, o.key, c1) || !gen_bound(r, u, model, o.key2, c2)) {
        if (st) st->inc("bound_rejected_not_prefix_free");
        continue;
      }
      if (!u.u64 && o.key != o.key2 && prefix_related(o.key, o.key2)) {
        if (st) st->inc("bound_rejected_not_prefix_free");
        continue;
      }
      if (r.chance(1, 12)) {
        o.key2 = o.key;
        c2 = "equal";
      }
      o.bclass = c1 + "+" + c2;
      o.halt = gen_halt(r, model.size());
      o.swap_addr = false;
      ops.push_back(o);
      if (!u.u64) {
        // issue the same query with the two caller buffers swapped
        o.swap_addr = true;
        ops.push_back(o);
      }
    }
  }
}

inline scase generate_case(vrng& r, int cfg, const gen_params& gp, stats* st) {
  scase c;
  c.cfg = cfg;
  const bool u64 = cfg_is_u64(cfg);
  const bool olc = cfg_is_olc(cfg);
  // universe size: biased to small, sometimes large
  unsigned usize = gp.size;
  {
    const unsigned b = static_cast<unsigned>(r.below(4));
    if (b == 0) usize = std::min(gp.size, 8u);
    else if (b == 1) usize = std::min(gp.size, 40u);
    else if (b == 2) usize = std::min(gp.size, 120u);
  }
  universe u = u64 ? gen_universe_u64(r, usize) : gen_universe_bytes(r, usize, gp.short_keys);
  if (u.keys.empty()) u.keys.push_back(u64 ? u64_to_be(1) : std::string("a"));
  // Full-node block (uint64 keys only, so prefix-freeness is not at stake): one
  // case in ten starts by loading all 256 byte values at one key position, so
  // an I256 with 256 children (8-bit count wrapped to 0) exists; the block's
  // keys join the universe, so the history below also removes / re-inserts them.
  std::vector<std::string> full_block;
  if (u64 && r.chance(1, 10)) {
    const unsigned pos = static_cast<unsigned>(r.below(8));  // 0 = last byte
    const std::uint64_t base = r.next() & ~(0xFFULL << (8 * pos));
    const unsigned order = static_cast<unsigned>(r.below(3));
    for (unsigned b = 0; b < 256; ++b) {
      const unsigned v = order == 0 ? b : order == 1 ? 255 - b : (b * 37) & 255;
      full_block.push_back(u64_to_be(base | (static_cast<std::uint64_t>(v) << (8 * pos))));
    }
    u.keys.insert(u.keys.end(), full_block.begin(), full_block.end());
    finish_universe(u);
    u.kind += "+full256";
  }
  if (st) st->inc("universe." + u.kind);
  const std::size_t un = u.keys.size();

  // generation-time model (keys only)
  kvmap model;
  const unsigned nops =
      static_cast<unsigned>(std::min<std::size_t>(un * 3 + 10, gp.size * 3 + 10));
  const unsigned total = 1 + static_cast<unsigned>(r.below(nops));
  bool growing = true;
  std::uint32_t vseed = static_cast<std::uint32_t>(r.next());
  // quiescent-state placement for olc: every k ops (k==0: only at the end)
  const unsigned qevery = olc ? (r.chance(1, 3) ? 1 : static_cast<unsigned>(r.below(8))) : 0;
  auto pick_absent = [&](std::string& out) {
    std::size_t i = r.below(un);
    for (std::size_t j = 0; j < un; ++j) {
      const auto& k = u.keys[(i + j) % un];
      if (!model.count(k)) {
        out = k;
        return true;
      }
    }
    return false;
  };
  auto pick_present = [&](std::string& out) {
    if (model.empty()) return false;
    auto it = model.begin();
    std::advance(it, static_cast<long>(r.below(model.size())));
    out = it->first;
    return true;
  };
  const unsigned scan_every = gp.fl == F_SCAN ? 4 + static_cast<unsigned>(r.below(30)) : 0;
  for (const auto& k : full_block) {
    op o;
    o.kind = INS;
    o.key = k;
    o.vlen = gen_vlen(r);
    o.vseed = vseed++;
    model[k];
    c.ops.push_back(o);
  }
  for (unsigned i = 0; i < total; ++i) {
    if (model.size() >= un) growing = false;
    if (model.empty()) growing = true;
    if (r.below(un + 4) == 0) growing = !growing;
    const unsigned w = static_cast<unsigned>(r.below(100));
    op o;
    const unsigned wi = growing ? 60 : 12, wr = growing ? 12 : 60;
    if (w < wi) {
      o.kind = INS;
      if (!(r.chance(3, 4) && pick_absent(o.key))) o.key = r.pick(u.keys);
      o.vlen = gen_vlen(r);
      o.vseed = vseed++;
      // keep in step with the runner's K1 exclusion (DESIGN.md 6)
      if (u64 || model.count(o.key) || !insert_needs_long_path(model, o.key)) model[o.key];
    } else if (w < wi + wr) {
      o.kind = REM;
      if (!(r.chance(3, 4) && pick_present(o.key))) o.key = r.pick(u.keys);
      if (u64 || !model.count(o.key) || !remove_needs_long_path(model, o.key)) model.erase(o.key);
    } else if (w < 94) {
      o.kind = GET;
      if (r.chance(1, 2)) {
        if (!pick_present(o.key)) o.key = r.pick(u.keys);
      } else {
        o.key = r.pick(u.keys);
      }
    } else if (w < 97) {
      o.kind = EMPTY;
    } else if (w < 98 && r.chance(1, 3)) {
      o.kind = CLEAR;
      model.clear();
    } else if (gp.fl == F_SHAPE) {
      o.kind = RELOAD;
    } else if (gp.fl == F_FAULT) {
      o.kind = r.chance(1, 2) ? INS_LONGVAL : INS_LONGKEY;
      o.key = r.pick(u.keys);
    } else {
      o.kind = EMPTY;
    }
    c.ops.push_back(o);
    if (qevery != 0 && (i % qevery) == qevery - 1) {
      op q;
      q.kind = QUIESCE;
      c.ops.push_back(q);
    }
    if (scan_every != 0 && (i % scan_every) == scan_every - 1)
      gen_scan_batch(r, u, model, 2 + static_cast<unsigned>(r.below(10)), c.ops, st);
  }
  if (gp.fl == F_SCAN) gen_scan_batch(r, u, model, 10 + static_cast<unsigned>(r.below(30)), c.ops, st);
  if (gp.fl == F_SHAPE) {
    op o;
    o.kind = RELOAD;
    c.ops.push_back(o);
  }
  return c;
}

}  // namespace verif::seq

#endif
