// Reference models shared by the sequential harnesses:
//  * map model: std::map<std::string,std::string> over binary-comparable keys
//  * canonical path-compressed radix tree of a key set (DESIGN.md 4.2):
//    node counts per size class, maximum compressed path, and the expected
//    growing/shrinking/prefix-split counter deltas of one insert / remove
//  * key-universe generators (DESIGN.md 4.3)
//
// Nothing here includes unodb headers: the oracle restates the property and
// shares no code with the implementation.
#ifndef VERIF_MODEL_HPP
#define VERIF_MODEL_HPP

#include <array>
#include <cstdint>
#include <map>
#include <set>
#include <string>
#include <vector>

#include "vcommon.hpp"

namespace verif {

using kvmap = std::map<std::string, std::string>;  // byte-wise ordered

enum node_class { N_LEAF = 0, N_I4 = 1, N_I16 = 2, N_I48 = 3, N_I256 = 4 };

inline int class_of_fanout(unsigned f) {
  if (f <= 4) return N_I4;
  if (f <= 16) return N_I16;
  if (f <= 48) return N_I48;
  return N_I256;
}

struct shape {
  std::array<std::uint64_t, 5> nodes{};  // by node_class
  unsigned max_cpath = 0;                // longest compressed path
  unsigned depth = 0;                    // inner-node levels
  bool operator==(const shape& o) const { return nodes == o.nodes; }
};

inline std::size_t lcp(const std::string& a, const std::string& b) {
  std::size_t n = std::min(a.size(), b.size()), i = 0;
  while (i < n && a[i] == b[i]) ++i;
  return i;
}

namespace detail {
template <class It>
void shape_rec(It lo, It hi, std::size_t d, unsigned level, shape& out) {
  const auto n = std::distance(lo, hi);
  if (n == 0) return;
  if (n == 1) {
    out.nodes[N_LEAF]++;
    return;
  }
  auto last = hi;
  --last;
  const std::size_t l = lcp(*lo, *last);  // sorted range: lcp of all
  const unsigned p = static_cast<unsigned>(l - d);
  if (p > out.max_cpath) out.max_cpath = p;
  if (level + 1 > out.depth) out.depth = level + 1;
  unsigned fan = 0;
  It g = lo;
  while (g != hi) {
    const unsigned char b = static_cast<unsigned char>((*g)[l]);
    It e = g;
    while (e != hi && static_cast<unsigned char>((*e)[l]) == b) ++e;
    shape_rec(g, e, l + 1, level + 1, out);
    ++fan;
    g = e;
  }
  out.nodes[class_of_fanout(fan)]++;
}
}  // namespace detail

// keys must be sorted, distinct and prefix-free
inline shape canonical_shape(const std::vector<std::string>& sorted_keys) {
  shape s;
  detail::shape_rec(sorted_keys.begin(), sorted_keys.end(), 0, 0, s);
  return s;
}
inline shape canonical_shape(const kvmap& m) {
  std::vector<std::string> k;
  k.reserve(m.size());
  for (auto& e : m) k.push_back(e.first);
  return canonical_shape(k);
}

// Longest compressed path only, computed for a key set given as a std::set
// plus/minus one key, without copying (used for the K1 exclusion predicate).
inline unsigned max_cpath_of(const std::vector<std::string>& sorted_keys) {
  return canonical_shape(sorted_keys).max_cpath;
}

// Expected movement of the public statistics counters caused by one
// successful insert / remove (DESIGN.md 4.2).
struct counter_delta {
  std::array<int, 4> growing{};    // I4, I16, I48, I256
  std::array<int, 4> shrinking{};  // I4, I16, I48, I256
  int prefix_splits = 0;
  // classification for evidence histograms
  std::string transition = "none";
};

namespace detail {
// number of distinct bytes at position pos among keys with prefix
// k[0..pos) in m (optionally pretending `extra` is in the set too)
inline unsigned fanout_at(const kvmap& m, const std::string& k,
                          std::size_t pos) {
  const std::string pre = k.substr(0, pos);
  unsigned fan = 0;
  auto it = m.lower_bound(pre);
  int last = -1;
  for (; it != m.end() && it->first.compare(0, pos, pre) == 0; ++it) {
    if (it->first.size() <= pos) continue;  // cannot happen in prefix-free sets
    const int b = static_cast<unsigned char>(it->first[pos]);
    if (b != last) {
      ++fan;
      last = b;
    }
  }
  return fan;
}
inline std::size_t group_size(const kvmap& m, const std::string& k,
                              std::size_t pos) {
  const std::string pre = k.substr(0, pos);
  std::size_t n = 0;
  for (auto it = m.lower_bound(pre);
       it != m.end() && it->first.compare(0, pos, pre) == 0; ++it)
    ++n;
  return n;
}
inline std::size_t group_lcp(const kvmap& m, const std::string& k,
                             std::size_t pos) {
  const std::string pre = k.substr(0, pos);
  auto first = m.lower_bound(pre);
  auto it = first;
  auto lastit = first;
  for (; it != m.end() && it->first.compare(0, pos, pre) == 0; ++it) lastit = it;
  return lcp(first->first, lastit->first);
}
// longest common prefix of k with any key of m (k not in m)
inline std::size_t max_lcp(const kvmap& m, const std::string& k) {
  std::size_t best = 0;
  auto it = m.lower_bound(k);
  if (it != m.end()) best = std::max(best, lcp(it->first, k));
  if (it != m.begin()) {
    --it;
    best = std::max(best, lcp(it->first, k));
  }
  return best;
}
}  // namespace detail

// m: key set BEFORE the insert; k absent from m
inline counter_delta expected_insert_delta(const kvmap& m,
                                           const std::string& k) {
  counter_delta d;
  if (m.empty()) {
    d.transition = "root_leaf_created";
    return d;
  }
  const std::size_t L = detail::max_lcp(m, k);
  const std::size_t g = detail::group_size(m, k, L);
  if (g == 1) {
    d.growing[0] = 1;
    d.transition = "leaf_split";
    return d;
  }
  const std::size_t LM = detail::group_lcp(m, k, L);
  if (LM > L) {
    d.growing[0] = 1;
    d.prefix_splits = 1;
    d.transition = "prefix_split";
    return d;
  }
  const unsigned f = detail::fanout_at(m, k, L);
  if (f == 4) {
    d.growing[1] = 1;
    d.transition = "grow_4_16";
  } else if (f == 16) {
    d.growing[2] = 1;
    d.transition = "grow_16_48";
  } else if (f == 48) {
    d.growing[3] = 1;
    d.transition = "grow_48_256";
  } else {
    d.transition = "add_to_nonfull";
  }
  return d;
}

// m: key set BEFORE the remove; k present in m
inline counter_delta expected_remove_delta(const kvmap& m,
                                           const std::string& k) {
  counter_delta d;
  if (m.size() == 1) {
    d.transition = "root_leaf_removed";
    return d;
  }
  // longest common prefix with a neighbour
  std::size_t L = 0;
  auto it = m.find(k);
  auto nx = it;
  ++nx;
  if (nx != m.end()) L = std::max(L, lcp(nx->first, k));
  if (it != m.begin()) {
    auto pv = it;
    --pv;
    L = std::max(L, lcp(pv->first, k));
  }
  const unsigned f = detail::fanout_at(m, k, L);
  if (f == 2) {
    d.shrinking[0] = 1;
    // classify the remaining child
    d.transition = detail::group_size(m, k, L) == 2 ? "collapse_to_leaf"
                                                    : "collapse_to_inode";
  } else if (f == 5) {
    d.shrinking[1] = 1;
    d.transition = "shrink_16_4";
  } else if (f == 17) {
    d.shrinking[2] = 1;
    d.transition = "shrink_48_16";
  } else if (f == 49) {
    d.shrinking[3] = 1;
    d.transition = "shrink_256_48";
  } else {
    d.transition = "remove_from_nonmin";
  }
  return d;
}

// K1 exclusion predicate (DESIGN.md 6): would the key set `m` with `k`
// inserted (resp. removed) need a compressed path longer than 7 bytes?
inline bool insert_needs_long_path(const kvmap& m, const std::string& k) {
  if (m.empty()) return false;
  // Only the path above k's leaf changes: the new/changed inner node at
  // branch position L has compressed path L - (parent branch position + 1).
  // Computing the full canonical shape is simple and fast enough.
  std::vector<std::string> keys;
  keys.reserve(m.size() + 1);
  bool placed = false;
  for (auto& e : m) {
    if (!placed && k < e.first) {
      keys.push_back(k);
      placed = true;
    }
    keys.push_back(e.first);
  }
  if (!placed) keys.push_back(k);
  return max_cpath_of(keys) > 7;
}
inline bool remove_needs_long_path(const kvmap& m, const std::string& k) {
  std::vector<std::string> keys;
  keys.reserve(m.size());
  for (auto& e : m)
    if (e.first != k) keys.push_back(e.first);
  return max_cpath_of(keys) > 7;
}

// true iff a is a proper prefix of b or b of a or a == b
inline bool prefix_related(const std::string& a, const std::string& b) {
  const std::size_t n = std::min(a.size(), b.size());
  return a.compare(0, n, b, 0, n) == 0;
}

// ---------------------------------------------------------------------------
// Key universes.

struct universe {
  bool u64 = true;
  std::string kind;
  std::vector<std::string> keys;  // sorted, distinct, (byte strings) prefix-free
};

inline void finish_universe(universe& u) {
  std::sort(u.keys.begin(), u.keys.end());
  u.keys.erase(std::unique(u.keys.begin(), u.keys.end()), u.keys.end());
}

// size: rough upper bound for the number of keys
inline universe gen_universe_u64(vrng& r, unsigned size) {
  universe u;
  u.u64 = true;
  std::set<std::uint64_t> s;
  const unsigned kind = static_cast<unsigned>(r.below(6));
  auto alphabet_keys = [&](unsigned n) {
    // per byte position a small alphabet; positions not chosen are constant
    static const unsigned sizes[] = {1, 1, 2, 2, 3, 4, 5, 16, 17, 48, 49, 256};
    std::vector<std::vector<unsigned>> alph(8);
    const unsigned varying = 1 + static_cast<unsigned>(r.below(4));
    std::set<unsigned> pos;
    while (pos.size() < varying) pos.insert(static_cast<unsigned>(r.below(8)));
    for (unsigned p = 0; p < 8; ++p) {
      unsigned sz = 1;
      if (pos.count(p)) sz = sizes[r.below(sizeof sizes / sizeof sizes[0])];
      std::set<unsigned> a;
      if (sz >= 256) {
        for (unsigned b = 0; b < 256; ++b) a.insert(b);
      } else {
        if (r.chance(1, 3)) a.insert(0);
        if (r.chance(1, 3)) a.insert(255);
        while (a.size() < sz) a.insert(static_cast<unsigned>(r.below(256)));
      }
      alph[p].assign(a.begin(), a.end());
    }
    for (unsigned i = 0; i < n * 3 && s.size() < n; ++i) {
      std::uint64_t k = 0;
      for (unsigned p = 0; p < 8; ++p)
        k = (k << 8) | alph[p][r.below(alph[p].size())];
      s.insert(k);
    }
  };
  switch (kind) {
    case 0: {  // dense range at the last byte(s)
      u.kind = "dense";
      const std::uint64_t b = r.chance(1, 2) ? r.below(1024) : r.next();
      const unsigned n = 2 + static_cast<unsigned>(r.below(size));
      for (unsigned i = 0; i < n; ++i) s.insert(b + i);
      break;
    }
    case 1: {  // dense pattern shifted to byte position d
      u.kind = "dense_shifted";
      const unsigned d = 1 + static_cast<unsigned>(r.below(7));
      const std::uint64_t b = r.next();
      const unsigned n = 2 + static_cast<unsigned>(r.below(std::min(size, 300u)));
      for (unsigned i = 0; i < n; ++i)
        s.insert(b + (static_cast<std::uint64_t>(i) << (8 * d)));
      break;
    }
    case 2:
    case 3: {
      u.kind = "alphabet";
      alphabet_keys(2 + static_cast<unsigned>(r.below(size)));
      break;
    }
    case 4: {
      u.kind = "sparse";
      const unsigned n = 2 + static_cast<unsigned>(r.below(size));
      for (unsigned i = 0; i < n; ++i) s.insert(r.next());
      break;
    }
    default: {
      u.kind = "union";
      alphabet_keys(2 + static_cast<unsigned>(r.below(size / 2 + 1)));
      const std::uint64_t b = r.next();
      const unsigned n = 2 + static_cast<unsigned>(r.below(size / 2 + 1));
      for (unsigned i = 0; i < n; ++i) s.insert(b + i);
      break;
    }
  }
  if (r.chance(1, 4)) s.insert(0);
  if (r.chance(1, 4)) s.insert(~0ULL);
  for (auto k : s) u.keys.push_back(u64_to_be(k));
  finish_universe(u);
  return u;
}

// Byte-string universes: prefix-free by construction.
// short_only: keys of at most 8 bytes (C16's quantifier; K1 cannot occur there)
inline universe gen_universe_bytes(vrng& r, unsigned size, bool short_only = false) {
  universe u;
  u.u64 = false;
  std::set<std::string> s;
  unsigned kind = static_cast<unsigned>(r.below(5));
  if (short_only) kind = (kind == 1 || kind == 4) ? 0 : kind;
  const unsigned n = 2 + static_cast<unsigned>(r.below(size));
  switch (kind) {
    case 0:
    case 1: {  // fixed length L over per-position alphabets
      // kind 0: total length <= 8 (never near K1); kind 1: up to 24 bytes
      const unsigned L = kind == 0 ? 1 + static_cast<unsigned>(r.below(8))
                                   : 9 + static_cast<unsigned>(r.below(16));
      u.kind = kind == 0 ? "fixed_short" : "fixed_long";
      static const unsigned sizes[] = {1, 1, 1, 2, 2, 3, 4, 5, 16, 17, 48, 49, 256};
      std::vector<std::vector<unsigned>> alph(L);
      // For long keys keep runs of constant positions short enough that
      // most sets stay inside the supported (compressed path <= 7) domain,
      // but not all of them: the K1 exclusion is exercised and counted.
      unsigned run = 0;
      for (unsigned p = 0; p < L; ++p) {
        unsigned sz = sizes[r.below(sizeof sizes / sizeof sizes[0])];
        if (sz == 1) {
          ++run;
          if (run > 6 && !r.chance(1, 8)) sz = 2;
        }
        if (sz > 1) run = 0;
        std::set<unsigned> a;
        if (sz >= 256) {
          for (unsigned b = 0; b < 256; ++b) a.insert(b);
        } else {
          if (r.chance(1, 4)) a.insert(0);
          if (r.chance(1, 4)) a.insert(255);
          while (a.size() < sz) a.insert(static_cast<unsigned>(r.below(256)));
        }
        alph[p].assign(a.begin(), a.end());
      }
      for (unsigned i = 0; i < n * 3 && s.size() < n; ++i) {
        std::string k;
        for (unsigned p = 0; p < L; ++p)
          k.push_back(static_cast<char>(alph[p][r.below(alph[p].size())]));
        s.insert(k);
      }
      break;
    }
    case 2: {  // C-string style: alphabet 1..k, terminator 0, variable length
      u.kind = "cstring";
      const unsigned k = 1 + static_cast<unsigned>(r.below(5));
      const unsigned maxlen = 1 + static_cast<unsigned>(r.below(short_only ? 7 : 10));
      for (unsigned i = 0; i < n * 3 && s.size() < n; ++i) {
        std::string key;
        const unsigned len = static_cast<unsigned>(r.below(maxlen + 1));
        for (unsigned j = 0; j < len; ++j)
          key.push_back(static_cast<char>(1 + r.below(k)));
        key.push_back('\0');
        s.insert(key);
      }
      break;
    }
    case 3: {  // length-prefixed: first byte = length, then random bytes
      u.kind = "len_prefixed";
      const unsigned k = 2 + static_cast<unsigned>(r.below(4));
      for (unsigned i = 0; i < n * 3 && s.size() < n; ++i) {
        std::string key;
        const unsigned len = static_cast<unsigned>(r.below(7));
        key.push_back(static_cast<char>(len));
        for (unsigned j = 0; j < len; ++j)
          key.push_back(static_cast<char>(r.below(k) * 37));
        s.insert(key);
      }
      break;
    }
    default: {  // long keys diverging early and late (K1 boundary class)
      u.kind = "long_diverging";
      const unsigned L = 12 + static_cast<unsigned>(r.below(29));
      // positions where keys may differ: spaced at most 8 apart mostly
      std::vector<unsigned> var;
      unsigned p = static_cast<unsigned>(r.below(7));
      while (p < L) {
        var.push_back(p);
        p += 1 + static_cast<unsigned>(r.below(r.chance(1, 10) ? 10 : 8));
      }
      if (var.empty() || var.back() != L - 1) var.push_back(L - 1);
      std::string base;
      for (unsigned i = 0; i < L; ++i) base.push_back(static_cast<char>(r.below(256)));
      for (unsigned i = 0; i < n * 3 && s.size() < n; ++i) {
        std::string key = base;
        for (unsigned v : var)
          key[v] = static_cast<char>(base[v] + r.below(r.chance(1, 3) ? 6 : 2));
        s.insert(key);
      }
      break;
    }
  }
  u.keys.assign(s.begin(), s.end());
  finish_universe(u);
  // enforce prefix-freedom defensively (constructions above guarantee it)
  std::vector<std::string> out;
  for (auto& k : u.keys) {
    if (!out.empty() && k.compare(0, out.back().size(), out.back()) == 0) continue;
    out.push_back(k);
  }
  u.keys.swap(out);
  return u;
}

// Value of an entry: recognisable function of (seed, length).
inline std::string make_value(std::uint32_t vseed, std::uint32_t vlen) {
  std::string v(vlen, '\0');
  std::uint64_t x = mix64(vseed * 0x9E3779B97F4A7C15ULL + 12345);
  for (std::uint32_t i = 0; i < vlen; ++i) {
    if ((i & 7) == 0) x = mix64(x + i + 1);
    v[i] = static_cast<char>(x >> (8 * (i & 7)));
  }
  return v;
}

inline std::uint32_t gen_vlen(vrng& r) {
  static const std::uint32_t lens[] = {0,  0,  1,  1,  2,   7,   8,   8,   9,
                                       31, 32, 33, 255, 256, 4096};
  if (r.chance(1, 400)) return 70000;
  if (r.chance(1, 3)) return static_cast<std::uint32_t>(r.below(24));
  return lens[r.below(sizeof lens / sizeof lens[0])];
}

}  // namespace verif

#endif
