// Shared utilities of the /verif harnesses: deterministic RNG, hex/text
// helpers, counters + distinct-case hashing, JSON statistics output.
//
// Every harness is a pure function of (repo tree, --seed, sizes): the only
// source of randomness is vrng seeded from the command line.
#ifndef VERIF_VCOMMON_HPP
#define VERIF_VCOMMON_HPP

#include <algorithm>
#include <cstdint>
#include <cstdio>
#include <cstdlib>
#include <cstring>
#include <fstream>
#include <map>
#include <set>
#include <sstream>
#include <string>
#include <unordered_set>
#include <vector>

namespace verif {

// ---------------------------------------------------------------------------
// RNG: splitmix64-seeded xoshiro256**; reproducible across platforms.
struct vrng {
  std::uint64_t s[4];
  explicit vrng(std::uint64_t seed = 1) { reseed(seed); }
  void reseed(std::uint64_t seed) {
    std::uint64_t z = seed + 0x9E3779B97F4A7C15ULL;
    for (auto& x : s) {
      z += 0x9E3779B97F4A7C15ULL;
      std::uint64_t y = z;
      y = (y ^ (y >> 30)) * 0xBF58476D1CE4E5B9ULL;
      y = (y ^ (y >> 27)) * 0x94D049BB133111EBULL;
      x = y ^ (y >> 31);
    }
  }
  static std::uint64_t rotl(std::uint64_t x, int k) {
    return (x << k) | (x >> (64 - k));
  }
  std::uint64_t next() {
    const std::uint64_t result = rotl(s[1] * 5, 7) * 9;
    const std::uint64_t t = s[1] << 17;
    s[2] ^= s[0];
    s[3] ^= s[1];
    s[1] ^= s[2];
    s[0] ^= s[3];
    s[2] ^= t;
    s[3] = rotl(s[3], 45);
    return result;
  }
  std::uint64_t operator()() { return next(); }
  // uniform in [0, n)
  std::uint64_t below(std::uint64_t n) { return n == 0 ? 0 : next() % n; }
  // uniform in [lo, hi]
  std::uint64_t range(std::uint64_t lo, std::uint64_t hi) {
    return lo + below(hi - lo + 1);
  }
  bool chance(unsigned num, unsigned den) { return below(den) < num; }
  template <class T>
  const T& pick(const std::vector<T>& v) {
    return v[below(v.size())];
  }
};

inline std::uint64_t mix64(std::uint64_t x) {
  x ^= x >> 33;
  x *= 0xff51afd7ed558ccdULL;
  x ^= x >> 33;
  x *= 0xc4ceb9fe1a85ec53ULL;
  x ^= x >> 33;
  return x;
}

inline std::uint64_t hash_bytes(const void* p, std::size_t n,
                                std::uint64_t h = 0xcbf29ce484222325ULL) {
  const auto* b = static_cast<const unsigned char*>(p);
  for (std::size_t i = 0; i < n; ++i) {
    h ^= b[i];
    h *= 0x100000001b3ULL;
  }
  return mix64(h ^ n);
}
inline std::uint64_t hash_str(const std::string& s,
                              std::uint64_t h = 0xcbf29ce484222325ULL) {
  return hash_bytes(s.data(), s.size(), h);
}
inline std::uint64_t hash_combine(std::uint64_t a, std::uint64_t b) {
  return mix64(a ^ (b + 0x9E3779B97F4A7C15ULL + (a << 6) + (a >> 2)));
}

// ---------------------------------------------------------------------------
inline std::string to_hex(const std::string& s) {
  static const char* d = "0123456789abcdef";
  if (s.empty()) return "-";
  std::string r;
  r.reserve(s.size() * 2);
  for (unsigned char c : s) {
    r.push_back(d[c >> 4]);
    r.push_back(d[c & 15]);
  }
  return r;
}
inline std::string from_hex(const std::string& h) {
  if (h == "-") return {};
  std::string r;
  auto v = [](char c) -> int {
    if (c >= '0' && c <= '9') return c - '0';
    if (c >= 'a' && c <= 'f') return c - 'a' + 10;
    if (c >= 'A' && c <= 'F') return c - 'A' + 10;
    return 0;
  };
  for (std::size_t i = 0; i + 1 < h.size(); i += 2)
    r.push_back(static_cast<char>((v(h[i]) << 4) | v(h[i + 1])));
  return r;
}
inline std::string u64_to_be(std::uint64_t k) {
  std::string s(8, '\0');
  for (int i = 0; i < 8; ++i) s[i] = static_cast<char>((k >> (56 - 8 * i)) & 0xFF);
  return s;
}
inline std::uint64_t be_to_u64(const std::string& s) {
  std::uint64_t k = 0;
  for (int i = 0; i < 8 && i < static_cast<int>(s.size()); ++i)
    k = (k << 8) | static_cast<unsigned char>(s[i]);
  return k;
}

inline std::string json_escape(const std::string& s) {
  std::string r;
  for (unsigned char c : s) {
    if (c == '"' || c == '\\') {
      r.push_back('\\');
      r.push_back(static_cast<char>(c));
    } else if (c == '\n') {
      r += "\\n";
    } else if (c < 0x20 || c >= 0x7f) {
      char b[8];
      std::snprintf(b, sizeof b, "\\u%04x", c);
      r += b;
    } else {
      r.push_back(static_cast<char>(c));
    }
  }
  return r;
}

// ---------------------------------------------------------------------------
// Statistics of one worker process; merged by check.py.
struct stats {
  std::map<std::string, std::uint64_t> counters;      // summed on merge
  std::unordered_set<std::uint64_t> nontrivial;       // distinct hashes
  std::vector<std::string> samples;                   // a few cases, as text
  std::size_t max_samples = 4;

  void inc(const std::string& k, std::uint64_t by = 1) { counters[k] += by; }
  void add_nontrivial(std::uint64_t h) { nontrivial.insert(h); }
  void add_sample(const std::string& s) {
    if (samples.size() < max_samples) samples.push_back(s);
  }
  // Hashes of non-trivial cases are written out so that the driver can
  // count distinct cases across workers.
  void write(const std::string& path) const {
    std::ofstream o(path + ".tmp");
    o << "{\n \"counters\": {";
    bool first = true;
    for (auto& [k, v] : counters) {
      o << (first ? "" : ",") << "\n  \"" << json_escape(k) << "\": " << v;
      first = false;
    }
    o << "\n },\n \"nontrivial_hashes\": [";
    first = true;
    // cap the list: the driver only needs distinctness, workers use
    // different seeds; beyond the cap only the count is reported.
    std::size_t n = 0;
    for (auto h : nontrivial) {
      if (n++ >= 200000) break;
      o << (first ? "" : ",") << "\"" << std::hex << h << std::dec << "\"";
      first = false;
    }
    o << "],\n \"nontrivial_count\": " << nontrivial.size() << ",\n \"samples\": [";
    first = true;
    for (auto& s : samples) {
      o << (first ? "" : ",") << "\n  \"" << json_escape(s) << "\"";
      first = false;
    }
    o << "\n ]\n}\n";
    o.close();
    std::rename((path + ".tmp").c_str(), path.c_str());
  }
};

inline std::vector<std::string> split_ws(const std::string& line) {
  std::vector<std::string> r;
  std::istringstream is(line);
  std::string t;
  while (is >> t) r.push_back(t);
  return r;
}

inline void write_file(const std::string& path, const std::string& content) {
  std::ofstream o(path + ".tmp");
  o << content;
  o.close();
  std::rename((path + ".tmp").c_str(), path.c_str());
}

inline std::string read_file(const std::string& path) {
  std::ifstream i(path);
  std::stringstream ss;
  ss << i.rdbuf();
  return ss.str();
}

// ---------------------------------------------------------------------------
// Simple argv parser: --name value / --flag
struct args {
  std::map<std::string, std::string> kv;
  args(int argc, char** argv) {
    for (int i = 1; i < argc; ++i) {
      std::string a = argv[i];
      if (a.rfind("--", 0) == 0) {
        if (i + 1 < argc && std::string(argv[i + 1]).rfind("--", 0) != 0) {
          kv[a.substr(2)] = argv[++i];
        } else {
          kv[a.substr(2)] = "1";
        }
      }
    }
  }
  bool has(const std::string& k) const { return kv.count(k) != 0; }
  std::string str(const std::string& k, const std::string& d = "") const {
    auto it = kv.find(k);
    return it == kv.end() ? d : it->second;
  }
  std::uint64_t u64(const std::string& k, std::uint64_t d = 0) const {
    auto it = kv.find(k);
    return it == kv.end() ? d : std::strtoull(it->second.c_str(), nullptr, 0);
  }
};

}  // namespace verif

#endif
