// Generic driver of the scheduled (concurrent) harnesses: program generation,
// schedule exploration (exhaustive DFS to a preemption bound, PCT, random
// walk), crash-safe process model, shrinking, replay.
//
// A harness provides:
//   std::string gen_program(seed, index, stats*)     program as text lines
//   exec_result execute(program_text, strategy&)     one execution + oracles
//   void setup_process()                              create thread pool etc.
//
// Modes:
//   explore : --seed S --programs N [--first I] --dfs-p P --dfs-cap C
//             --pct K --rand K --cpu C --out stats.json --fail-dir D
//   replay  : --replay FILE        exit 0 ok / 42 violation / 43 deadlock /
//                                  44 step limit / other = crash
//   search  : --search FILE --dfs-p P --dfs-cap C    (used while shrinking)
#ifndef VERIF_SCHED_DRIVER_HPP
#define VERIF_SCHED_DRIVER_HPP

#include <fcntl.h>
#include <sys/mman.h>
#include <sys/wait.h>
#include <unistd.h>

#include <iostream>
#include <sstream>

#include "sched.hpp"

namespace vsched {

struct exec_result {
  bool ok = true;
  std::string prop;
  std::string msg;
  bool nontrivial = false;
};

struct harness {
  virtual ~harness() = default;
  virtual void setup_process() = 0;
  virtual std::string gen_program(std::uint64_t seed, std::uint64_t index, verif::stats* st) = 0;
  virtual exec_result execute(const std::string& program, strategy& strat, verif::stats* st) = 0;
  // lines of the program text that may be dropped while shrinking
  virtual bool is_op_line(const std::string& line) { return !line.empty() && line[0] == 't'; }
  virtual std::string default_prop() = 0;
  // the property a livelock verdict (an operation that has not returned after the step budget plus the fair
  // continuation) violates in this harness; the other properties of the harness report it as inconclusive
  virtual std::string livelock_property() { return "C14"; }
};

constexpr int EXIT_VIOLATED = 42, EXIT_DEADLOCK = 43, EXIT_STEPLIMIT = 44, EXIT_LIVELOCK = 45;

inline std::string make_replay_text(const std::string& program, const override_list& ov, const std::string& comment) {
  std::string t;
  if (!comment.empty()) t += "# " + comment + "\n";
  t += "program:\n" + program;
  if (!program.empty() && program.back() != '\n') t += "\n";
  t += "schedule:" + overrides_to_text(ov) + "\n";
  return t;
}
inline bool parse_replay_text(const std::string& text, std::string& program, override_list& ov) {
  std::istringstream is(text);
  std::string line;
  bool inprog = false;
  program.clear();
  ov.clear();
  while (std::getline(is, line)) {
    if (!line.empty() && line[0] == '#') continue;
    if (line.rfind("program:", 0) == 0) {
      inprog = true;
      continue;
    }
    if (line.rfind("schedule:", 0) == 0) {
      auto t = verif::split_ws(line.substr(9));
      ov = overrides_from_tokens(t, 0);
      inprog = false;
      continue;
    }
    if (inprog) program += line + "\n";
  }
  return !program.empty();
}

inline int classify_status(int status) {
  if (WIFEXITED(status)) return WEXITSTATUS(status);
  return 1000 + WTERMSIG(status);
}
inline std::string describe_code(int code) {
  if (code == EXIT_VIOLATED) return "oracle violation";
  if (code == EXIT_DEADLOCK) return "deadlock: every unfinished thread spins forever (a lock was left behind or threads wait on one another)";
  if (code == EXIT_STEPLIMIT) return "step limit exceeded (no bounded progress)";
  if (code == EXIT_LIVELOCK)
    return "livelock: an operation has not returned after the step budget plus twice that budget of fair round-robin continuation (it restarts forever; no thread is spin-blocked)";
  if (code >= 1000) return "crash: signal " + std::to_string(code - 1000) + (code - 1000 == 6 ? " (assertion / abort)" : "");
  return "crash: exit status " + std::to_string(code) + " (sanitizer report)";
}

// Runs fn in a forked child with stdout/stderr optionally silenced; returns
// the classified exit code and what the child wrote to the pipe.
template <class Fn>
int run_in_child(Fn&& fn, std::string* piped, bool quiet) {
  int fds[2];
  if (pipe(fds) != 0) std::abort();
  std::fflush(nullptr);
  const pid_t pid = fork();
  if (pid == 0) {
    close(fds[0]);
    if (quiet) {
      const int dn = open("/dev/null", O_WRONLY);
      if (dn >= 0) {
        dup2(dn, 2);
        dup2(dn, 1);
      }
    }
    const int rc = fn(fds[1]);
    std::fflush(nullptr);
    _exit(rc);
  }
  close(fds[1]);
  std::string msg;
  char buf[4096];
  ssize_t n;
  while ((n = read(fds[0], buf, sizeof buf)) > 0) msg.append(buf, static_cast<std::size_t>(n));
  close(fds[0]);
  int status = 0;
  waitpid(pid, &status, 0);
  if (piped) *piped = msg;
  return classify_status(status);
}

struct explore_params {
  unsigned dfs_p = 1;
  std::uint64_t dfs_cap = 3000;
  unsigned pct = 20;
  unsigned rnd = 20;
  unsigned pct_depth = 3;
};

inline int sched_main(int argc, char** argv, harness& H) {
  verif::args a(argc, argv);
  auto& S = scheduler::get();
  pin_to_cpu(a.has("cpu") ? static_cast<int>(a.u64("cpu")) : -1);
  S.step_limit = a.u64("step-limit", 300000);
  const std::string prop = a.str("prop", H.default_prop());
  auto* slog = static_cast<shared_log*>(
      mmap(nullptr, sizeof(shared_log), PROT_READ | PROT_WRITE, MAP_SHARED | MAP_ANONYMOUS, -1, 0));
  std::memset(const_cast<std::uint64_t*>(&slog->program_index), 0, 64);
  S.slog = slog;

  // one execution in this process (pool must exist)
  auto exec_once = [&](const std::string& program, const override_list& ov, std::string* msg) -> int {
    replay_strategy rs(ov);
    exec_result r = H.execute(program, rs, nullptr);
    if (!r.ok) {
      if (msg) *msg = r.prop + " " + r.msg;
      return EXIT_VIOLATED;
    }
    return 0;
  };

  if (a.has("replay")) {
    std::string program;
    override_list ov;
    if (!parse_replay_text(verif::read_file(a.str("replay")), program, ov)) {
      std::cerr << "cannot parse replay file\n";
      return 2;
    }
    H.setup_process();
    S.on_abort = [&](verdict_kind v) { std::cout << "FAIL " << describe_code(v == V_DEADLOCK ? EXIT_DEADLOCK : v == V_LIVELOCK ? EXIT_LIVELOCK : EXIT_STEPLIMIT) << "\n"; };
    std::string msg;
    const int rc = exec_once(program, ov, &msg);
    if (std::getenv("VERIF_TRACE")) {
      std::cout << "steps=" << S.steps() << " preemptions=" << S.preemptions() << " spins=" << S.spins() << "\n";
      static const char* kn[] = {"point", "opb", "spin", "finish", "start"};
      for (auto& e : S.trace())
        if (e.kind != EV_POINT || e.chosen != e.cur)
          std::cout << "  step " << e.step << " " << kn[e.kind] << " cur=" << int(e.cur) << " -> " << int(e.chosen) << "\n";
    }
    if (rc != 0) {
      std::cout << "FAIL " << msg << "\n";
      std::fflush(nullptr);
      _exit(rc);
    }
    std::cout << "PASS\n";
    std::fflush(nullptr);
    _exit(0);
  }

  explore_params ep;
  ep.dfs_p = static_cast<unsigned>(a.u64("dfs-p", 1));
  ep.dfs_cap = a.u64("dfs-cap", 3000);
  ep.pct = static_cast<unsigned>(a.u64("pct", 20));
  ep.rnd = static_cast<unsigned>(a.u64("rand", 20));
  ep.pct_depth = static_cast<unsigned>(a.u64("pct-depth", 3));

  // exploration of one program in this process; returns 0 or EXIT_VIOLATED
  // (other failures kill the process). On violation fills fail_*.
  std::string fail_program, fail_msg;
  override_list fail_ov;
  auto explore_program = [&](const std::string& program, std::uint64_t pseed, verif::stats* st) -> int {
    std::uint64_t pilot_steps = 0;
    const std::uint64_t phash = verif::hash_str(program);
    auto one = [&](strategy& strat, const char* kind) -> bool {
      slog->exec_index = slog->exec_index + 1;
      exec_result r = H.execute(program, strat, st);
      if (std::getenv("VERIF_TRACE") && S.steps() > 200) {
        std::cout << "LONG steps=" << S.steps() << " ov=" << overrides_to_text(S.taken_overrides()) << "\n";
      }
      if (st) {
        st->inc("executions");
        st->inc(std::string("executions.") + kind);
        st->inc("steps", S.steps());
        const unsigned p = S.preemptions();
        st->inc("executions_by_preemptions." + std::to_string(p > 4 ? 4 : p) + (p > 4 ? "+" : ""));
        if (S.spins()) st->inc("executions_with_spin");
        if (S.fair_continued()) st->inc("executions_continued_fairly_past_step_limit");
        if (r.nontrivial) st->add_nontrivial(verif::hash_combine(phash, verif::hash_str(overrides_to_text(S.taken_overrides()))));
      }
      if (!r.ok) {
        fail_program = program;
        fail_ov = S.taken_overrides();
        fail_msg = r.prop + " " + r.msg;
        return false;
      }
      return true;
    };
    dfs_stats ds;
    const bool ok = dfs_explore(ep.dfs_p, ep.dfs_cap, [&](strategy& s, const override_list&) {
      const bool r = one(s, "dfs");
      if (ds.executions == 1) pilot_steps = S.steps();
      return r;
    }, ds);
    if (st) {
      st->inc("programs");
      st->inc(ds.complete ? "programs_dfs_complete" : "programs_dfs_capped");
      st->inc("programs_complete_to_preemptions." + std::to_string(ds.complete ? ep.dfs_p : (ds.complete_levels ? ds.complete_levels - 1 : 0)) +
              (ds.complete_levels == 0 && !ds.complete ? "_partial" : ""));
      st->inc("dfs_executions", ds.executions);
    }
    if (!ok) return EXIT_VIOLATED;
    for (unsigned i = 0; i < ep.pct; ++i) {
      pct_strategy ps(verif::hash_combine(pseed, 1000 + i), S.nthreads(), 2 + i % (ep.pct_depth > 1 ? ep.pct_depth - 1 : 1), pilot_steps);
      if (!one(ps, "pct")) return EXIT_VIOLATED;
    }
    for (unsigned i = 0; i < ep.rnd; ++i) {
      static const unsigned dens[] = {4, 16, 64};
      random_strategy rs(verif::hash_combine(pseed, 5000 + i), 1, dens[i % 3]);
      if (!one(rs, "random")) return EXIT_VIOLATED;
    }
    return 0;
  };

  if (a.has("search")) {
    // used while shrinking: does any schedule within the bound fail?
    std::string program;
    override_list ov;
    if (!parse_replay_text(verif::read_file(a.str("search")), program, ov)) return 2;
    H.setup_process();
    ep.pct = 0;
    ep.rnd = 0;
    const int rc = explore_program(program, 1, nullptr);
    if (rc == EXIT_VIOLATED) {
      verif::write_file(a.str("search") + ".found", make_replay_text(fail_program, fail_ov, fail_msg));
      std::fflush(nullptr);
      _exit(EXIT_VIOLATED);
    }
    std::fflush(nullptr);
    _exit(0);
  }

  // ---- explore mode: parent supervises a child that does the work ----------
  const std::uint64_t seed = a.u64("seed", 1);
  const std::uint64_t nprog = a.u64("programs", 10);
  std::uint64_t first = a.u64("first", 0);
  const std::string out = a.str("out", "");
  const std::string fail_dir = a.str("fail-dir", ".");
  const std::string tmpfail = fail_dir + "/cand_" + std::to_string(getpid()) + ".txt";
  unsigned respawns = 0;
  std::vector<std::string> inconclusive;
  int final_rc = 0;
  std::string found_path;

  while (first < nprog) {
    std::string piped;
    const std::uint64_t start = first;
    const int code = run_in_child([&](int fd) -> int {
      H.setup_process();
      verif::stats st;
      // merge with stats of earlier children of this worker
      int rc = 0;
      for (std::uint64_t i = start; i < nprog; ++i) {
        slog->program_index = i;
        slog->exec_index = 0;
        const std::string program = H.gen_program(seed, i, &st);
        if (i < start + 2 || i % 211 == 0) st.add_sample(program.size() > 900 ? program.substr(0, 900) + "..." : program);
        rc = explore_program(program, verif::hash_combine(seed, i), &st);
        if (rc != 0) {
          verif::write_file(tmpfail, make_replay_text(fail_program, fail_ov, fail_msg));
          break;
        }
      }
      if (!out.empty()) st.write(out + "." + std::to_string(start));
      (void)fd;
      return rc;
    }, &piped, false);
    if (code == 0) break;
    // a failure: build the candidate replay
    std::string program;
    override_list ov;
    std::string what = describe_code(code);
    if (code == EXIT_VIOLATED) {
      if (!parse_replay_text(verif::read_file(tmpfail), program, ov)) return 2;
      const std::string t = verif::read_file(tmpfail);
      if (t.size() > 2 && t[0] == '#') what = t.substr(2, t.find('\n') - 2);
    } else {
      program = H.gen_program(seed, slog->program_index, nullptr);
      for (std::uint32_t i = 0; i < slog->n_overrides && i < shared_log::MAX_OV; ++i)
        ov.emplace_back(slog->ov_step[i], slog->ov_thread[i]);
    }
    if (code == EXIT_LIVELOCK && prop != H.livelock_property()) {
      // a never-returning operation is the subject of one property per harness; for the others nothing can be evaluated
      inconclusive.push_back("program " + std::to_string(slog->program_index) + ": livelock verdict (decided by check " +
                             H.livelock_property() + ")");
      first = slog->program_index + 1;
      if (++respawns > 50) break;
      continue;
    }
    if (code == EXIT_STEPLIMIT) {
      // bounded progress exceeded without a deadlock verdict: inconclusive
      // (readers may legitimately restart often); continue after it
      inconclusive.push_back("program " + std::to_string(slog->program_index) + ": step limit");
      first = slog->program_index + 1;
      if (++respawns > 50) break;
      continue;
    }
    // confirm in a fresh child
    auto run_candidate = [&](const std::string& p, const override_list& o) {
      return run_in_child([&](int) -> int {
        H.setup_process();
        return exec_once(p, o, nullptr);
      }, nullptr, true);
    };
    const int c2 = run_candidate(program, ov);
    if (c2 != code) {
      inconclusive.push_back("failure (" + what + ") of program " + std::to_string(slog->program_index) +
                             " did not reproduce from its logged schedule (got " + describe_code(c2) + ")");
      first = slog->program_index + 1;
      if (++respawns > 50) break;
      continue;
    }
    // ---- shrink ---------------------------------------------------------------
    unsigned runs = 0;
    auto shrink_overrides = [&]() {
      for (std::size_t i = ov.size(); i-- > 0;) {
        override_list cand = ov;
        cand.erase(cand.begin() + static_cast<long>(i));
        ++runs;
        if (run_candidate(program, cand) == code) ov = cand;
      }
    };
    shrink_overrides();
    // program lines, re-deriving the schedule by bounded search
    {
      unsigned preempt_bound = static_cast<unsigned>(std::min<std::size_t>(ov.size(), 3));
      bool progress = true;
      while (progress && runs < 400) {
        progress = false;
        std::vector<std::string> lines;
        {
          std::istringstream is(program);
          std::string l;
          while (std::getline(is, l)) lines.push_back(l);
        }
        for (std::size_t i = 0; i < lines.size(); ++i) {
          if (!H.is_op_line(lines[i])) continue;
          std::string cand;
          for (std::size_t j = 0; j < lines.size(); ++j)
            if (j != i) cand += lines[j] + "\n";
          ++runs;
          // cheap attempt: same overrides
          if (run_candidate(cand, ov) == code) {
            program = cand;
            progress = true;
            break;
          }
          // bounded search for another failing schedule of the smaller program
          const std::string sf = fail_dir + "/search_" + std::to_string(getpid()) + ".txt";
          verif::write_file(sf, make_replay_text(cand, {}, ""));
          std::remove((sf + ".found").c_str());
          const int sc = run_in_child([&](int) -> int {
            H.setup_process();
            explore_params saved = ep;
            ep.dfs_p = preempt_bound;
            ep.dfs_cap = 20000;
            ep.pct = 0;
            ep.rnd = 0;
            const int rc = explore_program(cand, 1, nullptr);
            ep = saved;
            if (rc == EXIT_VIOLATED) verif::write_file(sf + ".found", make_replay_text(fail_program, fail_ov, fail_msg));
            return rc;
          }, nullptr, true);
          bool took = false;
          if (sc == code && code == EXIT_VIOLATED) {
            std::string p2;
            override_list o2;
            if (parse_replay_text(verif::read_file(sf + ".found"), p2, o2) && run_candidate(p2, o2) == code) {
              program = p2;
              ov = o2;
              took = true;
            }
          } else if (sc == code && code != EXIT_VIOLATED) {
            override_list o2;
            for (std::uint32_t k = 0; k < slog->n_overrides && k < shared_log::MAX_OV; ++k)
              o2.emplace_back(slog->ov_step[k], slog->ov_thread[k]);
            if (run_candidate(cand, o2) == code) {
              program = cand;
              ov = o2;
              took = true;
            }
          }
          std::remove(sf.c_str());
          std::remove((sf + ".found").c_str());
          if (took) {
            progress = true;
            break;
          }
        }
      }
      shrink_overrides();
    }
    // final message
    std::string msg = what;
    {
      std::string piped2;
      run_in_child([&](int fd) -> int {
        H.setup_process();
        std::string m;
        const int rc = exec_once(program, ov, &m);
        (void)!write(fd, m.data(), m.size());
        return rc;
      }, &piped2, true);
      if (!piped2.empty()) msg = piped2;
    }
    if (code >= 1000 || (code != EXIT_VIOLATED && code != EXIT_DEADLOCK && code != EXIT_STEPLIMIT && code != EXIT_LIVELOCK)) {
      // crash: run once more with stderr kept, and quote the assertion / sanitizer line in the replay file
      const std::string ef = fail_dir + "/.crash_stderr_" + std::to_string(getpid());
      std::fflush(nullptr);
      const pid_t cp = fork();
      if (cp == 0) {
        const int efd = open(ef.c_str(), O_WRONLY | O_CREAT | O_TRUNC, 0644);
        const int dn = open("/dev/null", O_WRONLY);
        if (efd >= 0) dup2(efd, 2);
        if (dn >= 0) dup2(dn, 1);
        H.setup_process();
        _exit(exec_once(program, ov, nullptr));
      }
      int stt = 0;
      waitpid(cp, &stt, 0);
      std::istringstream es(verif::read_file(ef));
      std::string ln, reason;
      while (std::getline(es, ln))
        if (reason.empty() && (ln.find("Assertion") != std::string::npos || ln.find("ERROR: AddressSanitizer") != std::string::npos ||
                               ln.find("runtime error") != std::string::npos || ln.find("ERROR: LeakSanitizer") != std::string::npos))
          reason = ln;
      std::remove(ef.c_str());
      if (!reason.empty()) msg += ": " + (reason.size() > 300 ? reason.substr(0, 300) : reason);
    }
    found_path = fail_dir + "/" + prop + "_seed" + std::to_string(seed) + "_prog" + std::to_string(slog->program_index) + ".txt";
    verif::write_file(found_path, make_replay_text(program, ov, "property " + prop + " violated: " + msg + " [" + describe_code(code) +
                                                                    "; shrunk in " + std::to_string(runs) + " runs]"));
    std::cout << "FAILURE " << found_path << " :: " << msg << "\n";
    final_rc = 1;
    break;
  }
  std::remove(tmpfail.c_str());
  for (auto& s : inconclusive) std::cout << "INCONCLUSIVE " << s << "\n";
  return final_rc;
}

}  // namespace vsched

#endif
