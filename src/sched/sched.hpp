// Deterministic cooperative scheduler over real threads (DESIGN.md 4.4).
//
// Real OS threads (QSBR state is thread_local), but only the holder of the
// baton runs. The verification hooks compiled into the library call
// sched::point() before every shared-memory access; there the running thread
// asks the strategy who runs next. A schedule is plain data: a list of
// (step, thread) overrides of the default decisions, which is generated
// (exhaustive DFS up to a preemption bound, PCT, random walk), logged to
// shared memory while it executes (so that a crash can be replayed), shrunk
// and replayed.
#ifndef VERIF_SCHED_HPP
#define VERIF_SCHED_HPP

#include <linux/futex.h>
#include <sched.h>
#include <sys/syscall.h>
#include <unistd.h>

#include <atomic>
#include <cstdint>
#include <cstdio>
#include <cstdlib>
#include <functional>
#include <map>
#include <string>
#include <thread>
#include <vector>

#include "../common/vcommon.hpp"

namespace vsched {

constexpr int MAX_THREADS = 6;

// raw futex wait / wake on a 32-bit atomic (no libstdc++ waiter pool)
inline void fwait(std::atomic<std::uint32_t>& a, std::uint32_t while_equal) noexcept {
  while (a.load(std::memory_order_acquire) == while_equal)
    syscall(SYS_futex, reinterpret_cast<std::uint32_t*>(&a), FUTEX_WAIT_PRIVATE, while_equal, nullptr, nullptr, 0);
}
inline void fwake(std::atomic<std::uint32_t>& a) noexcept {
  syscall(SYS_futex, reinterpret_cast<std::uint32_t*>(&a), FUTEX_WAKE_PRIVATE, 0x7fffffff, nullptr, nullptr, 0);
}

enum evkind : std::uint8_t { EV_POINT = 0, EV_OPB = 1, EV_SPIN = 2, EV_FINISH = 3, EV_START = 4, EV_BLOCK = 5 };

struct event {
  std::uint64_t step;
  evkind kind;
  std::int8_t cur;          // thread at the event (-1 for START)
  std::uint8_t runnable;    // bit mask of threads that may be chosen
  std::int8_t chosen;
  std::int8_t dflt;
};

struct decision_ctx {
  std::uint64_t step;
  evkind kind;
  int cur;
  unsigned runnable;  // mask of options
  int dflt;
};

struct strategy {
  virtual ~strategy() = default;
  // returns a thread whose bit is set in ctx.runnable
  virtual int decide(const decision_ctx& ctx) = 0;
};

using override_list = std::vector<std::pair<std::uint64_t, int>>;

inline std::string overrides_to_text(const override_list& o) {
  std::string s;
  for (auto& p : o) s += " " + std::to_string(p.first) + ":" + std::to_string(p.second);
  return s;
}
inline override_list overrides_from_tokens(const std::vector<std::string>& t, std::size_t from) {
  override_list o;
  for (std::size_t i = from; i < t.size(); ++i) {
    const auto c = t[i].find(':');
    if (c == std::string::npos) continue;
    o.emplace_back(std::strtoull(t[i].substr(0, c).c_str(), nullptr, 10), std::atoi(t[i].substr(c + 1).c_str()));
  }
  return o;
}

// Follows a list of overrides, default decisions everywhere else.
struct replay_strategy final : strategy {
  std::map<std::uint64_t, int> ov;
  explicit replay_strategy(const override_list& o) {
    for (auto& p : o) ov[p.first] = p.second;
  }
  int decide(const decision_ctx& c) override {
    auto it = ov.find(c.step);
    if (it != ov.end() && it->second >= 0 && ((c.runnable >> it->second) & 1U)) return it->second;
    return c.dflt;
  }
};

// Random walk: switch with probability num/den at every point.
struct random_strategy final : strategy {
  verif::vrng rng;
  unsigned num, den;
  random_strategy(std::uint64_t seed, unsigned n, unsigned d) : rng(seed), num(n), den(d) {}
  static int nth_set(unsigned mask, unsigned n) {
    for (int i = 0; i < MAX_THREADS; ++i)
      if ((mask >> i) & 1U) {
        if (n == 0) return i;
        --n;
      }
    return -1;
  }
  int decide(const decision_ctx& c) override {
    const unsigned cnt = static_cast<unsigned>(__builtin_popcount(c.runnable));
    if (c.kind == EV_POINT || c.kind == EV_OPB) {
      if (cnt <= 1 || !rng.chance(num, den)) return c.cur;
      unsigned others = c.runnable & ~(1U << c.cur);
      return nth_set(others, static_cast<unsigned>(rng.below(static_cast<unsigned>(__builtin_popcount(others)))));
    }
    if (c.kind == EV_SPIN && cnt > 1) {
      // mostly yield to another thread, sometimes stay
      unsigned others = c.runnable & ~(1U << c.cur);
      if (others != 0 && !rng.chance(1, 8))
        return nth_set(others, static_cast<unsigned>(rng.below(static_cast<unsigned>(__builtin_popcount(others)))));
      return ((c.runnable >> c.cur) & 1U) ? c.cur : c.dflt;
    }
    return nth_set(c.runnable, static_cast<unsigned>(rng.below(cnt)));
  }
};

// PCT (Burckhardt et al.): random priorities, d-1 priority change points.
struct pct_strategy final : strategy {
  verif::vrng rng;
  int prio[MAX_THREADS];
  int low;
  std::vector<std::uint64_t> change;  // steps
  pct_strategy(std::uint64_t seed, int nthreads, unsigned d, std::uint64_t nsteps) : rng(seed), low(0) {
    std::vector<int> p;
    for (int i = 0; i < MAX_THREADS; ++i) p.push_back(i);
    for (int i = MAX_THREADS - 1; i > 0; --i) std::swap(p[i], p[rng.below(static_cast<unsigned>(i) + 1)]);
    for (int i = 0; i < MAX_THREADS; ++i) prio[i] = 100 + p[i];
    (void)nthreads;
    for (unsigned i = 1; i < d; ++i) change.push_back(1 + rng.below(nsteps ? nsteps : 1));
  }
  int decide(const decision_ctx& c) override {
    if (c.cur >= 0) {
      for (auto s : change)
        if (s == c.step) prio[c.cur] = --low;
      if (c.kind == EV_SPIN) prio[c.cur] = --low;  // a yield lowers the priority
    }
    int best = -1;
    for (int i = 0; i < MAX_THREADS; ++i)
      if (((c.runnable >> i) & 1U) && (best < 0 || prio[i] > prio[best])) best = i;
    return best;
  }
};

enum verdict_kind { V_DONE = 0, V_DEADLOCK = 1, V_STEP_LIMIT = 2, V_LIVELOCK = 3 };

// Shared-memory page (MAP_SHARED, set up by the driver before fork) where
// the running execution logs its identity and every non-default decision,
// so that the parent can rebuild a replay after a crash.
struct shared_log {
  volatile std::uint64_t program_index;
  volatile std::uint64_t exec_index;
  volatile std::uint32_t verdict;       // verdict_kind when the process exits itself
  volatile std::uint32_t n_overrides;
  volatile std::uint64_t steps;
  volatile std::uint32_t in_execution;
  volatile std::uint32_t pad;
  static constexpr std::size_t MAX_OV = 8000;
  volatile std::uint64_t ov_step[MAX_OV];
  volatile std::int32_t ov_thread[MAX_OV];
};

class scheduler {
 public:
  static scheduler& get() {
    static scheduler s;
    return s;
  }

  shared_log* slog = nullptr;
  std::uint64_t step_limit = 200000;
  std::uint64_t spin_limit = 3000;  // consecutive spin events with no other progress

  // --- called by the harness (main thread of the worker process) -------------
  void start_pool(int n, const std::function<void(std::function<void()>)>& make_thread_runner);
  // Runs bodies[0..n) under the strategy. Returns after all finished. On a
  // deadlock or step-limit verdict the process exits (the parent reads the
  // verdict from the shared log).
  void run(const std::vector<std::function<void()>>& bodies, strategy& strat);
  // Runs fn on pool thread i with scheduling inactive; waits for completion.
  void run_on(int i, const std::function<void()>& fn);

  const std::vector<event>& trace() const { return trace_; }
  const override_list& taken_overrides() const { return taken_; }
  std::uint64_t steps() const { return step_; }
  unsigned preemptions() const { return preemptions_; }
  unsigned spins() const { return spins_; }
  bool fair_continued() const { return fair_entered_; }
  bool record_trace = true;

  // --- called from scheduled threads -------------------------------------------
  static thread_local int tls_tid;
  static thread_local bool tls_active;
  void point(unsigned hook_kind, const void* addr) noexcept;
  void op_boundary() noexcept { sched_event(EV_OPB); }
  // Harness-level ordering constraint: the calling thread is not runnable
  // until pred() holds (evaluated by whoever holds the baton at each
  // scheduling event). Lets a program script the coarse order of operations
  // so that the preemption budget is spent inside the racing calls.
  void block_until(std::function<bool()> pred) noexcept;
  std::uint64_t now() const noexcept { return step_; }
  // unique, totally ordered time stamp for history events (advances the
  // step counter; not a scheduling point)
  std::uint64_t stamp() noexcept { return step_++; }
  int nthreads() const { return n_; }
  // a verdict hook the harness may set: called (by the thread that detects
  // it) before the process exits on deadlock / step limit
  std::function<void(verdict_kind)> on_abort;

 private:
  struct slot {
    std::atomic<std::uint32_t> go{0};
    std::atomic<std::uint32_t> job{0};
    std::atomic<std::uint32_t> done{0};
    std::function<void()> fn;
    bool scheduled = false;
    std::thread::id id;
  };
  slot slots_[MAX_THREADS];
  std::vector<std::thread*> threads_;
  int pool_n_ = 0;
  int n_ = 0;
  strategy* strat_ = nullptr;
  std::uint64_t step_ = 0;
  unsigned runnable_ = 0;
  int cur_ = -1;
  std::atomic<std::uint32_t> all_done_{0};
  std::vector<event> trace_;
  override_list taken_;
  unsigned preemptions_ = 0;
  unsigned spins_ = 0;
  std::uint64_t consecutive_spins_ = 0;
  std::uint64_t last_stay_step_[MAX_THREADS] = {};
  std::uint64_t last_switch_step_ = 1;
  std::function<bool()> blocked_pred_[MAX_THREADS];
  unsigned blocked_ = 0;
  void wake_blocked() noexcept;

  void pool_main(int i);
  void sched_event(evkind k) noexcept;
  int default_choice(evkind k, int cur, unsigned options) const noexcept;
  unsigned fair_run_ = 0, fair_switches_ = 0;  // fair continuation past the step limit
  bool fair_entered_ = false;
  void switch_to(int from, int to) noexcept;
  [[noreturn]] void abort_execution(verdict_kind v) noexcept;
};

inline thread_local int scheduler::tls_tid = -1;
inline thread_local bool scheduler::tls_active = false;

inline void scheduler::start_pool(int n, const std::function<void(std::function<void()>)>& make_thread_runner) {
  pool_n_ = n;
  for (int i = 0; i < n; ++i) {
    // the harness decides what kind of thread runs the pool loop (a
    // qsbr_thread for QSBR-registered workers)
    make_thread_runner([this, i] { pool_main(i); });
  }
}

inline void scheduler::pool_main(int i) {
  tls_tid = i;
  slot& s = slots_[i];
  std::uint32_t seen = 0;
  while (true) {
    std::uint32_t j;
    fwait(s.job, seen);
    j = s.job.load(std::memory_order_acquire);
    seen = j;
    if (!s.fn) break;  // shutdown
    if (s.scheduled) {
      // wait for the baton
      fwait(s.go, 0);
      s.go.store(0, std::memory_order_relaxed);
      tls_active = true;
      s.fn();
      tls_active = false;
      // FINISH event: hand the baton on
      runnable_ &= ~(1U << i);
      consecutive_spins_ = 0;
      if (blocked_ != 0) wake_blocked();
      if (runnable_ == 0 && blocked_ == 0) {
        all_done_.store(1, std::memory_order_release);
        fwake(all_done_);
      } else {
        tls_active = true;  // decision is made by this thread
        sched_event(EV_FINISH);
        tls_active = false;
      }
    } else {
      s.fn();
    }
    s.done.fetch_add(1, std::memory_order_release);
    fwake(s.done);
  }
}

inline void scheduler::run_on(int i, const std::function<void()>& fn) {
  slot& s = slots_[i];
  s.fn = fn;
  s.scheduled = false;
  const auto d = s.done.load(std::memory_order_acquire);
  s.job.fetch_add(1, std::memory_order_release);
  fwake(s.job);
  fwait(s.done, d);
}

inline int scheduler::default_choice(evkind k, int cur, unsigned options) const noexcept {
  if ((k == EV_POINT || k == EV_OPB) && cur >= 0 && ((options >> cur) & 1U)) return cur;
  // round robin after cur, preferring other threads
  for (int d = 1; d <= MAX_THREADS; ++d) {
    const int t = (cur + d + MAX_THREADS) % MAX_THREADS;
    if (t != cur && ((options >> t) & 1U)) return t;
  }
  return cur;
}

inline void scheduler::run(const std::vector<std::function<void()>>& bodies, strategy& strat) {
  n_ = static_cast<int>(bodies.size());
  strat_ = &strat;
  step_ = 0;
  trace_.clear();
  taken_.clear();
  preemptions_ = 0;
  spins_ = 0;
  consecutive_spins_ = 0;
  fair_run_ = 0;
  fair_switches_ = 0;
  fair_entered_ = false;
  for (auto& b : last_stay_step_) b = 0;
  last_switch_step_ = 1;
  blocked_ = 0;
  runnable_ = (1U << n_) - 1;
  all_done_.store(0, std::memory_order_relaxed);
  if (slog) {
    slog->n_overrides = 0;
    slog->steps = 0;
    slog->in_execution = 1;
  }
  std::uint32_t done_before[MAX_THREADS];
  for (int i = 0; i < n_; ++i) {
    slot& s = slots_[i];
    s.fn = bodies[static_cast<std::size_t>(i)];
    s.scheduled = true;
    s.go.store(0, std::memory_order_relaxed);
    done_before[i] = s.done.load(std::memory_order_acquire);
    s.job.fetch_add(1, std::memory_order_release);
    fwake(s.job);
  }
  // START event (decided by the main thread)
  {
    decision_ctx c{step_, EV_START, -1, runnable_, 0};
    c.dflt = default_choice(EV_START, -1, runnable_);
    int ch = strat.decide(c);
    if (ch < 0 || !((runnable_ >> ch) & 1U)) ch = c.dflt;
    if (record_trace)
      trace_.push_back({step_, EV_START, -1, static_cast<std::uint8_t>(runnable_), static_cast<std::int8_t>(ch),
                        static_cast<std::int8_t>(c.dflt)});
    if (ch != c.dflt) {
      taken_.emplace_back(step_, ch);
      if (slog && slog->n_overrides < shared_log::MAX_OV) {
        slog->ov_step[slog->n_overrides] = step_;
        slog->ov_thread[slog->n_overrides] = ch;
        slog->n_overrides = slog->n_overrides + 1;
      }
    }
    ++step_;
    cur_ = ch;
    slots_[ch].go.store(1, std::memory_order_release);
    fwake(slots_[ch].go);
  }
  {
    // wait for completion; a self-check aborts if the baton got lost (no
    // step for a long time while nobody finished): harness error, not a verdict
    std::uint64_t last_step = ~0ULL;
    unsigned idle = 0;
    while (all_done_.load(std::memory_order_acquire) == 0) {
      timespec ts{0, 2000000};  // 2 ms
      syscall(SYS_futex, reinterpret_cast<std::uint32_t*>(&all_done_), FUTEX_WAIT_PRIVATE, 0, &ts, nullptr, 0);
      const std::uint64_t s = *const_cast<volatile std::uint64_t*>(&step_);
      if (s == last_step) {
        if (++idle > 90000) {  // 180 s without a single step
          std::fprintf(stderr, "SCHEDULER STUCK: step=%llu runnable=%x cur=%d overrides=%s\n",
                       static_cast<unsigned long long>(s), runnable_, cur_, overrides_to_text(taken_).c_str());
          for (std::size_t k = trace_.size() > 12 ? trace_.size() - 12 : 0; k < trace_.size(); ++k)
            std::fprintf(stderr, "  ev step=%llu kind=%d cur=%d runnable=%x chosen=%d\n",
                         static_cast<unsigned long long>(trace_[k].step), trace_[k].kind, trace_[k].cur,
                         trace_[k].runnable, trace_[k].chosen);
          std::fflush(nullptr);
          _exit(2);
        }
      } else {
        idle = 0;
        last_step = s;
      }
    }
  }
  for (int i = 0; i < n_; ++i) {
    slot& s = slots_[i];
    fwait(s.done, done_before[i]);
  }
  if (slog) {
    slog->in_execution = 0;
    slog->steps = step_;
  }
  strat_ = nullptr;
}

inline void scheduler::abort_execution(verdict_kind v) noexcept {
  if (slog) {
    slog->verdict = static_cast<std::uint32_t>(v);
    slog->steps = step_;
  }
  if (on_abort) on_abort(v);
  std::fflush(nullptr);
  _exit(v == V_DEADLOCK ? 43 : v == V_LIVELOCK ? 45 : 44);
}

inline void scheduler::switch_to(int from, int to) noexcept {
  // decide before the hand-over: afterwards the other thread owns the state
  const bool must_wait = from >= 0 && (((runnable_ | blocked_) >> from) & 1U);
  cur_ = to;
  slot& t = slots_[to];
  t.go.store(1, std::memory_order_release);
  fwake(t.go);
  if (must_wait) {
    slot& f = slots_[from];
    fwait(f.go, 0);
    f.go.store(0, std::memory_order_relaxed);
  }
}

inline void scheduler::wake_blocked() noexcept {
  for (int t = 0; t < MAX_THREADS; ++t)
    if (((blocked_ >> t) & 1U) && blocked_pred_[t]()) {
      blocked_ &= ~(1U << t);
      runnable_ |= 1U << t;
    }
}

inline void scheduler::block_until(std::function<bool()> pred) noexcept {
  if (!tls_active || pred()) return;
  const int me = tls_tid;
  blocked_pred_[me] = std::move(pred);
  blocked_ |= 1U << me;
  runnable_ &= ~(1U << me);
  sched_event(EV_BLOCK);
}

inline void scheduler::sched_event(evkind k) noexcept {
  const int me = tls_tid;
  if (blocked_ != 0) wake_blocked();
  if (runnable_ == 0) {
    // every unfinished thread waits for a condition that cannot become true
    std::fprintf(stderr, "harness error: all threads are blocked on await conditions\n");
    std::fflush(nullptr);
    _exit(2);
  }
  unsigned options = runnable_;
  if (k == EV_SPIN) {
    ++spins_;
    if (++consecutive_spins_ > spin_limit * static_cast<unsigned>(__builtin_popcount(runnable_))) abort_execution(V_DEADLOCK);
    // A spin point is a forced yield: the options are the round-robin
    // successor and - once per turn - staying (a spin is either a wait for a
    // write-locked word or a back-off before a restart; the hook cannot tell
    // which). Arbitrary targets are not offered: free choices at spin points
    // would make the schedule space of a bounded search infinite (unfair
    // ping-pong between two spinning threads).
    const int nxt = default_choice(EV_SPIN, me, runnable_ & ~(1U << me));
    unsigned o = 0;
    if (nxt != me && nxt >= 0 && ((runnable_ >> nxt) & 1U)) o |= 1U << nxt;
    if (o == 0 || last_stay_step_[me] < last_switch_step_) o |= 1U << me;
    options = o;
  }
  if (step_ > step_limit) {
    // The schedule so far may have been unfair to the threads that are still unfinished (the default continuation
    // keeps one thread running until it spins or finishes; random / PCT strategies may starve one).
    // Continue FAIRLY - the strategy is no longer consulted, every runnable thread gets a quantum of
    // varying length in round-robin order, spin points yield - for twice the step budget again. An
    // operation that has still not returned then violates "in every schedule in which each thread
    // keeps being scheduled, every operation returns".
    if (step_ > step_limit * 3) abort_execution(V_LIVELOCK);
    fair_entered_ = true;
    int ch = me;
    const bool me_runnable = ((runnable_ >> me) & 1U) != 0;  // false at FINISH / BLOCK events
    if (k == EV_SPIN) {
      ch = default_choice(EV_SPIN, me, options);
    } else if (!me_runnable || ++fair_run_ > 48 + 29 * (fair_switches_ % 7)) {
      ch = default_choice(EV_SPIN, me, runnable_ & ~(1U << me));
    }
    if (ch < 0 || !((runnable_ >> ch) & 1U)) ch = me_runnable ? me : default_choice(EV_SPIN, me, runnable_);
    ++step_;
    if (ch != me) {
      fair_run_ = 0;
      ++fair_switches_;
      last_switch_step_ = step_ + 1;
      switch_to(me, ch);
    }
    return;
  }
  decision_ctx c{step_, k, me, options, 0};
  c.dflt = default_choice(k, me, options);
  int ch = strat_->decide(c);
  if (ch < 0 || !((options >> ch) & 1U)) ch = c.dflt;
  if (record_trace)
    trace_.push_back({step_, k, static_cast<std::int8_t>(me), static_cast<std::uint8_t>(options),
                      static_cast<std::int8_t>(ch), static_cast<std::int8_t>(c.dflt)});
  if (ch != c.dflt) {
    taken_.emplace_back(step_, ch);
    if (slog && slog->n_overrides < shared_log::MAX_OV) {
      slog->ov_step[slog->n_overrides] = step_;
      slog->ov_thread[slog->n_overrides] = ch;
      slog->n_overrides = slog->n_overrides + 1;
    }
  }
  if ((k == EV_POINT || k == EV_OPB) && ch != me) ++preemptions_;
  if (k == EV_SPIN && ch == me) last_stay_step_[me] = step_ + 1;
  ++step_;
  if (ch != me) {
    last_switch_step_ = step_ + 1;
    switch_to(me, ch);
  }
}

inline void scheduler::point(unsigned hook_kind, const void*) noexcept {
  if (!tls_active) return;
  // stores / RMWs are progress: they reset the spin-block detector (loads do
  // not: a spin-wait loop re-loads the word it waits for)
  if (hook_kind == 1 || hook_kind == 2 || hook_kind == 4 || hook_kind == 6) consecutive_spins_ = 0;
  // kind 7 == unodb::detail::verif::spin
  sched_event(hook_kind == 7 ? EV_SPIN : EV_POINT);
}

inline void pin_to_cpu(int cpu) {
  if (cpu < 0) return;
  cpu_set_t set;
  CPU_ZERO(&set);
  CPU_SET(static_cast<unsigned>(cpu) % static_cast<unsigned>(sysconf(_SC_NPROCESSORS_ONLN)), &set);
  sched_setaffinity(0, sizeof set, &set);
}

// ---------------------------------------------------------------------------
// Exhaustive exploration up to a preemption bound (stateless DFS by
// re-execution). `execute` runs the program once under the given strategy
// and returns false to stop the search (a violation was found).
struct dfs_stats {
  std::uint64_t executions = 0;
  bool complete = true;  // false if the execution cap was hit
  unsigned complete_levels = 0;  // schedules with < complete_levels preemptions were all executed
};

inline unsigned event_cost(const event& e, int alt) {
  return ((e.kind == EV_POINT || e.kind == EV_OPB) && alt != e.cur) ? 1U : 0U;
}

template <class Exec>
bool dfs_explore(unsigned max_preemptions, std::uint64_t max_execs, Exec&& execute, dfs_stats& ds) {
  // Level order by number of preemptions: every schedule with c preemptions
  // is executed before any schedule with c+1, so an execution cap cuts off
  // the highest level only (ds.complete_level says which levels are complete).
  struct frame {
    override_list ov;
    std::uint64_t first_free;
    unsigned cost;
  };
  std::vector<std::vector<frame>> level(max_preemptions + 1);
  level[0].push_back({{}, 0, 0});
  auto& S = scheduler::get();
  std::uint64_t queued = 1;
  unsigned min_cut = max_preemptions + 1;
  for (unsigned c = 0; c <= max_preemptions; ++c) {
    auto& stack = level[c];
    while (!stack.empty()) {
      frame f = std::move(stack.back());
      stack.pop_back();
      if (ds.executions >= max_execs) {
        ds.complete = false;
        ds.complete_levels = std::min(c, min_cut);
        return true;
      }
      replay_strategy rs(f.ov);
      ++ds.executions;
      if (!execute(rs, f.ov)) return false;
      const std::vector<event> tr = S.trace();  // copy: the next execution overwrites it
      std::vector<frame> kids;
      for (const auto& e : tr) {
        if (e.step < f.first_free) continue;
        for (int alt = 0; alt < MAX_THREADS; ++alt) {
          if (!((e.runnable >> alt) & 1U) || alt == e.chosen) continue;
          const unsigned cc = f.cost + event_cost(e, alt);
          if (cc > max_preemptions) continue;
          if (queued >= max_execs + 64) {  // no point in queueing what the cap will cut
            ds.complete = false;
            if (cc < min_cut) min_cut = cc;
            continue;
          }
          frame k;
          k.ov = f.ov;
          k.ov.emplace_back(e.step, alt);
          k.first_free = e.step + 1;
          k.cost = cc;
          ++queued;
          if (cc == c) kids.push_back(std::move(k));
          else level[cc].push_back(std::move(k));
        }
      }
      // same-level children (free alternatives): early steps first
      for (auto it = kids.rbegin(); it != kids.rend(); ++it) stack.push_back(std::move(*it));
    }
    ds.complete_levels = std::min(c + 1, min_cut);
  }
  return true;
}

}  // namespace vsched

#endif
